/*
 * bus.c - BiDiB bus simulator for vdrv (DESIGN.md appendix B).
 *
 * Runs inside the write callback: decodes the downlink byte stream with its own
 * decoder (written from the BiDiB framing rules, not by calling the library),
 * and enqueues uplink replies.  Never calls the library.
 *
 * Script configuration (command "bus ..."):
 *   bus on|off                         enable the simulator (default off: silent wire)
 *   bus node <a1> <a2> <a3> <uid14hex> [feat <num>:<val> ...]   a node at that path (0 0 0 = interface)
 *   bus silent                         interface never answers (probe fails)
 *   bus featother <v>                  answer FEATURE_SET with value v instead of the requested one
 *   bus tablechange <k>                answer the k-th NODETAB_GETNEXT (1-based, whole session) with NODETAB_COUNT
 *   bus inject feature <hexpacketbytes>   raw bytes put on the uplink ahead of the next MSG_FEATURE reply
 *   bus autoreply on|off               answer CS_SET_STATE / CS_DRIVE / ACCESSORY_SET / LC_OUTPUT / BOOST_* (default on)
 *   bus pktcap <c>                     value reported for GET_PKT_CAPACITY (default 64)
 *   bus clear                          forget all nodes / faults
 */
#define _GNU_SOURCE
#include <stdlib.h>
#include <string.h>
#include <pthread.h>
#include "vdrv.h"

#define MAXNODES 32
typedef struct { uint8_t path[3]; uint8_t uid[7]; uint8_t rseq; int getnext_pos; } bnode;
static bnode nodes[MAXNODES]; static int n_nodes = 0;
static bool bus_on = false, silent = false, autoreply = true;
static int featother = -1, tablechange = -1, getnext_total = 0, pktcap = 64;
static uint8_t inject_feature[512]; static int inject_feature_n = 0;
static pthread_mutex_t bus_mu = PTHREAD_MUTEX_INITIALIZER;

/* downlink decoder state */
static uint8_t dbuf[1024]; static size_t dlen = 0; static bool desc = false; static bool insync = false;

static const uint8_t crc_tab[256] = {
	0x00, 0x5e, 0xbc, 0xe2, 0x61, 0x3f, 0xdd, 0x83, 0xc2, 0x9c, 0x7e, 0x20, 0xa3, 0xfd, 0x1f, 0x41,
	0x9d, 0xc3, 0x21, 0x7f, 0xfc, 0xa2, 0x40, 0x1e, 0x5f, 0x01, 0xe3, 0xbd, 0x3e, 0x60, 0x82, 0xdc,
	0x23, 0x7d, 0x9f, 0xc1, 0x42, 0x1c, 0xfe, 0xa0, 0xe1, 0xbf, 0x5d, 0x03, 0x80, 0xde, 0x3c, 0x62,
	0xbe, 0xe0, 0x02, 0x5c, 0xdf, 0x81, 0x63, 0x3d, 0x7c, 0x22, 0xc0, 0x9e, 0x1d, 0x43, 0xa1, 0xff,
	0x46, 0x18, 0xfa, 0xa4, 0x27, 0x79, 0x9b, 0xc5, 0x84, 0xda, 0x38, 0x66, 0xe5, 0xbb, 0x59, 0x07,
	0xdb, 0x85, 0x67, 0x39, 0xba, 0xe4, 0x06, 0x58, 0x19, 0x47, 0xa5, 0xfb, 0x78, 0x26, 0xc4, 0x9a,
	0x65, 0x3b, 0xd9, 0x87, 0x04, 0x5a, 0xb8, 0xe6, 0xa7, 0xf9, 0x1b, 0x45, 0xc6, 0x98, 0x7a, 0x24,
	0xf8, 0xa6, 0x44, 0x1a, 0x99, 0xc7, 0x25, 0x7b, 0x3a, 0x64, 0x86, 0xd8, 0x5b, 0x05, 0xe7, 0xb9,
	0x8c, 0xd2, 0x30, 0x6e, 0xed, 0xb3, 0x51, 0x0f, 0x4e, 0x10, 0xf2, 0xac, 0x2f, 0x71, 0x93, 0xcd,
	0x11, 0x4f, 0xad, 0xf3, 0x70, 0x2e, 0xcc, 0x92, 0xd3, 0x8d, 0x6f, 0x31, 0xb2, 0xec, 0x0e, 0x50,
	0xaf, 0xf1, 0x13, 0x4d, 0xce, 0x90, 0x72, 0x2c, 0x6d, 0x33, 0xd1, 0x8f, 0x0c, 0x52, 0xb0, 0xee,
	0x32, 0x6c, 0x8e, 0xd0, 0x53, 0x0d, 0xef, 0xb1, 0xf0, 0xae, 0x4c, 0x12, 0x91, 0xcf, 0x2d, 0x73,
	0xca, 0x94, 0x76, 0x28, 0xab, 0xf5, 0x17, 0x49, 0x08, 0x56, 0xb4, 0xea, 0x69, 0x37, 0xd5, 0x8b,
	0x57, 0x09, 0xeb, 0xb5, 0x36, 0x68, 0x8a, 0xd4, 0x95, 0xcb, 0x29, 0x77, 0xf4, 0xaa, 0x48, 0x16,
	0xe9, 0xb7, 0x55, 0x0b, 0x88, 0xd6, 0x34, 0x6a, 0x2b, 0x75, 0x97, 0xc9, 0x4a, 0x14, 0xf6, 0xa8,
	0x74, 0x2a, 0xc8, 0x96, 0x15, 0x4b, 0xa9, 0xf7, 0xb6, 0xe8, 0x0a, 0x54, 0xd7, 0x89, 0x6b, 0x35
};

static bnode *find_node(const uint8_t *path) {
	for (int i = 0; i < n_nodes; i++) if (memcmp(nodes[i].path, path, 3) == 0) return &nodes[i];
	return NULL;
}

static int depth(const uint8_t *p) { return p[0] == 0 ? 0 : p[1] == 0 ? 1 : p[2] == 0 ? 2 : 3; }

/* children of interface p: nodes one level deeper sharing the prefix */
static int children(const uint8_t *p, bnode **out) {
	int d = depth(p), k = 0;
	if (d >= 3) return 0;
	for (int i = 0; i < n_nodes; i++) {
		if (depth(nodes[i].path) != d + 1) continue;
		if (memcmp(nodes[i].path, p, (size_t) d) != 0) continue;
		out[k++] = &nodes[i];
	}
	return k;
}

/* encode one uplink message as its own packet and enqueue it */
static void reply(bnode *nd, const uint8_t *path, uint8_t type, const uint8_t *data, int dn, bool seq0) {
	uint8_t msg[160]; int k = 1;
	int d = depth(path);
	for (int i = 0; i < d; i++) msg[k++] = path[i];
	msg[k++] = 0;
	uint8_t seq = 0;
	if (!seq0 && nd) { seq = nd->rseq; nd->rseq = (uint8_t) (nd->rseq == 255 ? 1 : nd->rseq + 1); }
	msg[k++] = seq;
	msg[k++] = type;
	for (int i = 0; i < dn; i++) msg[k++] = data[i];
	msg[0] = (uint8_t) (k - 1);
	uint8_t pkt[400]; int p = 0; uint8_t crc = 0;
	pkt[p++] = 0xFE;
	for (int i = 0; i <= k; i++) {
		uint8_t b;
		if (i < k) { b = msg[i]; crc = crc_tab[b ^ crc]; } else b = crc;
		if (b == 0xFE || b == 0xFD) { pkt[p++] = 0xFD; pkt[p++] = b ^ 0x20; } else pkt[p++] = b;
	}
	pkt[p++] = 0xFE;
	up_feed(pkt, (size_t) p);
}

static bool probing = true;   /* until the first SYS_RESET of a session replies carry seq 0 */

static void handle_msg(const uint8_t *m, size_t len) {
	/* m[0] = length, address stack, 0, seq, type, data */
	size_t i = 1; uint8_t path[3] = {0, 0, 0}; int d = 0;
	while (i < len && m[i] != 0 && d < 3) path[d++] = m[i++];
	if (i >= len || m[i] != 0) return;
	i++;
	if (i + 1 >= len + 0 && i + 1 > len) return;
	if (i + 2 > len) return;
	uint8_t type = m[i + 1];
	const uint8_t *data = m + i + 2; int dn = (int) (len - (i + 2));
	bnode *nd = find_node(path);
	if (silent || nd == NULL) return;
	uint8_t r[64];
	switch (type) {
		case 0x01: /* SYS_GET_MAGIC */
			r[0] = 0xFE; r[1] = 0xAF; reply(nd, path, 0x81, r, 2, probing); break;
		case 0x09: /* SYS_RESET: all nodes restart their numbering */
			for (int k = 0; k < n_nodes; k++) { nodes[k].rseq = 1; nodes[k].getnext_pos = 0; }
			probing = false;
			break;
		case 0x0a: /* GET_PKT_CAPACITY */
			r[0] = (uint8_t) pktcap; reply(nd, path, 0x8a, r, 1, false); break;
		case 0x0b: { /* NODETAB_GETALL */
			bnode *ch[MAXNODES]; int c = children(path, ch);
			nd->getnext_pos = 0;
			r[0] = (uint8_t) (c + 1); reply(nd, path, 0x88, r, 1, false); break; }
		case 0x0c: { /* NODETAB_GETNEXT */
			bnode *ch[MAXNODES]; int c = children(path, ch);
			getnext_total++;
			if (tablechange > 0 && getnext_total == tablechange) {
				nd->getnext_pos = 0;
				r[0] = (uint8_t) (c + 1); reply(nd, path, 0x88, r, 1, false); break;
			}
			if (nd->getnext_pos > c) { r[0] = 255; reply(nd, path, 0x8b, r, 1, false); break; }
			r[0] = 1; /* table version */
			if (nd->getnext_pos == 0) { r[1] = 0; memcpy(r + 2, nd->uid, 7); }
			else { bnode *cn = ch[nd->getnext_pos - 1]; r[1] = cn->path[depth(cn->path) - 1]; memcpy(r + 2, cn->uid, 7); }
			nd->getnext_pos++;
			reply(nd, path, 0x89, r, 9, false); break; }
		case 0x13: /* FEATURE_SET */
			if (dn >= 2) {
				if (inject_feature_n > 0) { up_feed(inject_feature, (size_t) inject_feature_n); inject_feature_n = 0; }
				r[0] = data[0]; r[1] = featother >= 0 ? (uint8_t) featother : data[1];
				reply(nd, path, 0x90, r, 2, false);
			}
			break;
		case 0x20: /* BM_GET_RANGE(start,end) -> BM_MULTIPLE(start, size, zero bitmap) */
			if (autoreply && dn >= 2) {
				int size = data[1] > data[0] ? data[1] - data[0] : 8; if (size > 128) size = 128;
				r[0] = data[0]; r[1] = (uint8_t) size; memset(r + 2, 0, (size_t) (size + 7) / 8);
				reply(nd, path, 0xa2, r, 2 + (size + 7) / 8, false);
			}
			break;
		case 0x62: /* CS_SET_STATE -> CS_STATE */
			if (autoreply && dn >= 1) { r[0] = data[0]; reply(nd, path, 0xe1, r, 1, false); }
			break;
		case 0x64: /* CS_DRIVE -> CS_DRIVE_ACK(addr, 1) */
			if (autoreply && dn >= 2) { r[0] = data[0]; r[1] = data[1]; r[2] = 1; reply(nd, path, 0xe2, r, 3, false); }
			break;
		case 0x65: /* CS_ACCESSORY -> CS_ACCESSORY_ACK */
			if (autoreply && dn >= 2) { r[0] = data[0]; r[1] = data[1]; r[2] = 1; reply(nd, path, 0xe3, r, 3, false); }
			break;
		case 0x38: /* ACCESSORY_SET -> ACCESSORY_STATE(anum, aspect, total 2, execute 0, wait 0) */
			if (autoreply && dn >= 2) { r[0] = data[0]; r[1] = data[1]; r[2] = 2; r[3] = 0; r[4] = 0; reply(nd, path, 0xb8, r, 5, false); }
			break;
		case 0x40: /* LC_OUTPUT -> LC_STAT */
			if (autoreply && dn >= 3) { r[0] = data[0]; r[1] = data[1]; r[2] = data[2]; reply(nd, path, 0xc0, r, 3, false); }
			break;
		default: break;
	}
}

static void handle_packet(const uint8_t *p, size_t n) {
	/* p: unescaped payload including crc */
	uint8_t crc = 0;
	for (size_t i = 0; i < n; i++) crc = crc_tab[p[i] ^ crc];
	if (crc != 0 || n < 2) return;
	n--;
	size_t i = 0;
	while (i < n) {
		size_t l = (size_t) p[i] + 1;
		if (l < 4 || i + l > n) return;
		handle_msg(p + i, l);
		i += l;
	}
}

void bus_downlink(const uint8_t *b, size_t n) {
	if (!bus_on) return;
	pthread_mutex_lock(&bus_mu);
	for (size_t i = 0; i < n; i++) {
		uint8_t c = b[i];
		if (c == 0xFE) {
			if (insync && dlen > 0) handle_packet(dbuf, dlen);
			insync = true; dlen = 0; desc = false;
		} else if (!insync) {
			continue;
		} else if (c == 0xFD) {
			desc = true;
		} else {
			if (desc) { c ^= 0x20; desc = false; }
			if (dlen < sizeof dbuf) dbuf[dlen++] = c;
		}
	}
	pthread_mutex_unlock(&bus_mu);
}

void bus_session_begin(void) {
	pthread_mutex_lock(&bus_mu);
	dlen = 0; desc = false; insync = false; probing = true; getnext_total = 0;
	for (int k = 0; k < n_nodes; k++) { nodes[k].rseq = 1; nodes[k].getnext_pos = 0; }
	pthread_mutex_unlock(&bus_mu);
}

void bus_config(int n, char **tok) {
	if (n < 1) return;
	pthread_mutex_lock(&bus_mu);
	if (strcmp(tok[0], "on") == 0) bus_on = true;
	else if (strcmp(tok[0], "off") == 0) bus_on = false;
	else if (strcmp(tok[0], "silent") == 0) silent = n > 1 ? atoi(tok[1]) != 0 : true;
	else if (strcmp(tok[0], "featother") == 0 && n > 1) featother = atoi(tok[1]);
	else if (strcmp(tok[0], "tablechange") == 0 && n > 1) tablechange = atoi(tok[1]);
	else if (strcmp(tok[0], "pktcap") == 0 && n > 1) pktcap = atoi(tok[1]);
	else if (strcmp(tok[0], "autoreply") == 0 && n > 1) autoreply = strcmp(tok[1], "on") == 0;
	else if (strcmp(tok[0], "inject") == 0 && n > 2 && strcmp(tok[1], "feature") == 0) {
		inject_feature_n = parse_hex(tok[2], inject_feature, sizeof inject_feature);
		if (inject_feature_n < 0) inject_feature_n = 0;
	} else if (strcmp(tok[0], "clear") == 0) {
		n_nodes = 0; silent = false; featother = -1; tablechange = -1; inject_feature_n = 0; pktcap = 64; autoreply = true;
	} else if (strcmp(tok[0], "node") == 0 && n >= 5 && n_nodes < MAXNODES) {
		bnode *nd = &nodes[n_nodes];
		memset(nd, 0, sizeof *nd);
		nd->path[0] = (uint8_t) strtol(tok[1], NULL, 16);
		nd->path[1] = (uint8_t) strtol(tok[2], NULL, 16);
		nd->path[2] = (uint8_t) strtol(tok[3], NULL, 16);
		if (parse_hex(tok[4], nd->uid, 7) == 7) { nd->rseq = 1; n_nodes++; }
	} else if (strcmp(tok[0], "delnode") == 0 && n >= 4) {
		uint8_t p[3] = { (uint8_t) strtol(tok[1], NULL, 16), (uint8_t) strtol(tok[2], NULL, 16), (uint8_t) strtol(tok[3], NULL, 16) };
		for (int i = 0; i < n_nodes; i++) if (memcmp(nodes[i].path, p, 3) == 0) { nodes[i] = nodes[--n_nodes]; break; }
	}
	pthread_mutex_unlock(&bus_mu);
}
