"""Configuration model: python dict <-> the three YAML files <-> the JSON value the TLA+ Track/Config modules read.

cfg = {
  "boards": [ {"id", "uid": [7 bytes], "features": [[num, val], ...]} ... ]              (board file order)
  "track":  [ {"id": board id,
               "pb": [ {"id","num","aspects":[{"id","val"}],"initial": str|None} ],      points-board
               "pd": [ {"id","al","ah","ext","aspects":[{"id","ports":[[port,val]]}],"initial"} ],   points-dcc
               "sb": [...], "sd": [...],                                                   signals-board / signals-dcc
               "per": [ {"id","num","p0","p1","aspects":[{"id","val"}],"initial"} ],
               "seg": [ {"id","addr"} ], "rev": [ {"id","cv": str} ]} ... ]                (track file order)
  "trains": [ {"id","al","ah","steps","cal": [9 ints]|None,"per":[{"id","bit","initial": int|None}]} ]
}
"""
import os, random

def hx(b): return "0x%02X" % b

def render_board(cfg):
    o = ["boards:"]
    for b in cfg["boards"]:
        o.append("  - id: %s" % b["id"])
        o.append("    unique-id: 0x" + "".join("%02X" % x for x in b["uid"]))
        if b.get("features"):
            o.append("    features:")
            for n, v in b["features"]:
                o.append("      - number: %s" % hx(n)); o.append("        value: %s" % hx(v))
    if len(o) == 1: o = ["boards: []"]
    return "\n".join(o) + "\n"

def _aspects(o, asp, ind):
    o.append(ind + "aspects:")
    for a in asp:
        o.append(ind + "  - id: %s" % a["id"]); o.append(ind + "    value: %s" % hx(a["val"]))

def _dcc_aspects(o, asp, ind):
    o.append(ind + "aspects:")
    for a in asp:
        o.append(ind + "  - id: %s" % a["id"]); o.append(ind + "    ports:")
        for p, v in a["ports"]:
            o.append(ind + "      - port: %s" % hx(p)); o.append(ind + "        value: %s" % hx(v))

def render_track(cfg):
    o = ["boards:"]
    for b in cfg["track"]:
        o.append("  - id: %s" % b["id"])
        for key, name in (("pb", "points-board"), ("pd", "points-dcc"), ("sb", "signals-board"), ("sd", "signals-dcc")):
            if b.get(key):
                o.append("    %s:" % name)
                for a in b[key]:
                    o.append("      - id: %s" % a["id"])
                    if key in ("pb", "sb"):
                        o.append("        number: %s" % hx(a["num"])); _aspects(o, a["aspects"], "        ")
                    else:
                        o.append("        dcc-address: 0x%02X%02X" % (a["ah"], a["al"])); o.append("        extended: %s" % hx(a["ext"]))
                        _dcc_aspects(o, a["aspects"], "        ")
                    if a.get("initial") is not None: o.append("        initial: %s" % a["initial"])
        if b.get("per"):
            o.append("    peripherals:")
            for p in b["per"]:
                o.append("      - id: %s" % p["id"]); o.append("        number: %s" % hx(p["num"]))
                o.append("        port: 0x%02X%02X" % (p["p1"], p["p0"])); _aspects(o, p["aspects"], "        ")
                if p.get("initial") is not None: o.append("        initial: %s" % p["initial"])
        if b.get("seg"):
            o.append("    segments:")
            for s in b["seg"]:
                o.append("      - id: %s" % s["id"]); o.append("        address: %s" % hx(s["addr"]))
                o.append("        length: %s" % s.get("length", "10.0cm"))      # the parser requires it
        if b.get("rev"):
            o.append("    reversers:")
            for r in b["rev"]:
                o.append("      - id: %s" % r["id"]); o.append("        cv: %s" % r["cv"])
    if len(o) == 1: o = ["boards: []"]
    return "\n".join(o) + "\n"

def render_train(cfg):
    o = ["trains:"]
    for t in cfg["trains"]:
        o.append("  - id: %s" % t["id"]); o.append("    dcc-address: 0x%02X%02X" % (t["ah"], t["al"]))
        o.append("    dcc-speed-steps: %d" % t["steps"])
        if t.get("cal"):
            o.append("    calibration:")
            for c in t["cal"]: o.append("      - %d" % c)
        if t.get("per"):
            o.append("    peripherals:")
            for p in t["per"]:
                o.append("      - id: %s" % p["id"]); o.append("        bit: %d" % p["bit"])
                if p.get("initial") is not None: o.append("        initial: %d" % p["initial"])
        elif t.get("cal"):
            o.append("    peripherals: []")     # the parser accepts a calibration only when a peripherals key follows
    if len(o) == 1: o = ["trains: []"]
    return "\n".join(o) + "\n"

def write(cfg, d):
    os.makedirs(d, exist_ok=True)
    open(os.path.join(d, "bidib_board_config.yml"), "w").write(render_board(cfg))
    open(os.path.join(d, "bidib_track_config.yml"), "w").write(render_track(cfg))
    open(os.path.join(d, "bidib_train_config.yml"), "w").write(render_train(cfg))
    return d

def to_spec(cfg):
    """JSON value for the TLA+ side: no None, fixed field sets, features/ports as records"""
    def asp(a): return [{"id": x["id"], "val": x["val"]} for x in a]
    def dasp(a): return [{"id": x["id"], "ports": [{"port": p, "val": v} for p, v in x["ports"]]} for x in a]
    def ini(x): return x if x is not None else ""
    out = {"boards": [{"id": b["id"], "uid": list(b["uid"]), "features": [{"num": n, "val": v} for n, v in b.get("features", [])]} for b in cfg["boards"]],
           "track": [], "trains": []}
    for b in cfg["track"]:
        out["track"].append({
            "id": b["id"],
            "pb": [{"id": a["id"], "num": a["num"], "aspects": asp(a["aspects"]), "initial": ini(a.get("initial"))} for a in b.get("pb", [])],
            "sb": [{"id": a["id"], "num": a["num"], "aspects": asp(a["aspects"]), "initial": ini(a.get("initial"))} for a in b.get("sb", [])],
            "pd": [{"id": a["id"], "al": a["al"], "ah": a["ah"], "ext": a["ext"], "aspects": dasp(a["aspects"]), "initial": ini(a.get("initial"))} for a in b.get("pd", [])],
            "sd": [{"id": a["id"], "al": a["al"], "ah": a["ah"], "ext": a["ext"], "aspects": dasp(a["aspects"]), "initial": ini(a.get("initial"))} for a in b.get("sd", [])],
            "per": [{"id": p["id"], "num": p["num"], "p0": p["p0"], "p1": p["p1"], "aspects": asp(p["aspects"]), "initial": ini(p.get("initial"))} for p in b.get("per", [])],
            "seg": [{"id": s["id"], "addr": s["addr"]} for s in b.get("seg", [])],
            "rev": [{"id": r["id"], "cv": [ord(c) for c in str(r["cv"])]} for r in b.get("rev", [])]})
    for t in cfg["trains"]:
        out["trains"].append({"id": t["id"], "al": t["al"], "ah": t["ah"], "steps": t["steps"], "cal": list(t.get("cal") or []),
                              "per": [{"id": p["id"], "bit": p["bit"], "initial": p["initial"] if p.get("initial") is not None else -1} for p in t.get("per", [])]})
    return out

# ------------------------------------------------------------------ generation of valid configurations

CLASS_CHOICES = [0x00, 0x02, 0x10, 0x12, 0x40, 0x80, 0x92, 0xD2, 0x05]

def gen(rng, nboards=None, ntrains=None, small=False, secack=None, allow_hi_bits=False):
    """a valid, unambiguous configuration.  Values are drawn from the full legal ranges; ids are unique across the
    whole configuration (the library keeps one state table per entity kind for all boards)."""
    nb = rng.choice([0, 1, 2, 3, 4]) if nboards is None else nboards
    nt = rng.choice([0, 1, 2, 3]) if ntrains is None else ntrains
    cnt = [0]
    def nid(p):
        cnt[0] += 1; return "%s%d" % (p, cnt[0])
    uids = set(); boards = []; track = []
    dcc_used = set()
    def dcc():
        while True:
            ah = rng.choice([0, 1, 0x11, 0x27, 0x3F]); al = rng.randrange(256)
            if (ah, al) not in dcc_used and (ah, al) != (0, 0):
                dcc_used.add((ah, al)); return al, ah
    def aspects(k):
        vals = rng.sample(range(256) if allow_hi_bits else range(128), k)
        out = [{"id": nid("a"), "val": v} for v in vals]
        # now and then an aspect whose id extends the id of an earlier aspect of the same accessory ("stop" / "stop_shunt")
        if k > 1 and rng.random() < 0.25: out[-1]["id"] = out[0]["id"] + rng.choice(["0", "_b"])
        return out
    def dcc_aspects(k):
        # one port set per accessory, distinct value vectors: no aspect's (port, value) set is contained in another's
        np_ = rng.choice([1, 2, 2, 3]); k = min(k, 2 ** np_)
        ports = sorted(rng.sample(range(32), np_))
        vecs = rng.sample(range(2 ** np_), k)
        out = [{"id": nid("a"), "ports": [[p, (v >> j) & 1] for j, p in enumerate(ports)]} for v in vecs]
        if len(out) > 1 and rng.random() < 0.25: out[-1]["id"] = out[0]["id"] + rng.choice(["0", "_b"])
        return out
    for i in range(nb):
        while True:
            uid = [rng.choice(CLASS_CHOICES), rng.randrange(256), rng.randrange(256)] + [rng.randrange(256) for _ in range(4)]
            if i == 0 and nb > 1: uid[0] |= 0x80          # the interface
            if tuple(uid) not in uids and uid[0] != 0xFF: break
        uids.add(tuple(uid))
        bid = nid("board")
        feats = []
        for n in sorted(rng.sample(range(256), rng.choice([0, 0, 1, 2, 3]))):
            if n == 3: continue
            feats.append([n, rng.randrange(256)])
        sa = secack if secack is not None else rng.choice([None, None, 0, 1, 200])
        if sa is not None: feats.append([3, sa])
        boards.append({"id": bid, "uid": uid, "features": feats})
        if rng.random() < 0.15 and not small: continue          # board without a track section
        tb = {"id": bid, "pb": [], "pd": [], "sb": [], "sd": [], "per": [], "seg": [], "rev": []}
        k = (lambda: rng.choice([0, 1, 2])) if small else (lambda: rng.choice([0, 0, 1, 2, 3]))
        nums = rng.sample(range(256) if allow_hi_bits else range(128), 8)
        for key in ("pb", "sb"):
            for _ in range(k()):
                a = {"id": nid("pt" if key == "pb" else "sg"), "num": nums.pop(), "aspects": aspects(rng.choice([1, 2, 3]))}
                a["initial"] = rng.choice([None, a["aspects"][0]["id"], a["aspects"][-1]["id"]])
                tb[key].append(a)
        for key in ("pd", "sd"):
            for _ in range(k()):
                al, ah = dcc()
                a = {"id": nid("dp" if key == "pd" else "ds"), "al": al, "ah": ah, "ext": rng.randrange(2), "aspects": dcc_aspects(rng.choice([1, 2, 3]))}
                a["initial"] = rng.choice([None, a["aspects"][0]["id"], a["aspects"][-1]["id"]])
                tb[key].append(a)
        pnums = rng.sample(range(256), 4); ports = rng.sample(range(65536), 4)
        for _ in range(k()):
            pt = ports.pop()
            p = {"id": nid("led"), "num": pnums.pop(), "p0": pt & 255, "p1": pt >> 8, "aspects": aspects(rng.choice([1, 2, 3]))}
            p["initial"] = rng.choice([None, p["aspects"][0]["id"], p["aspects"][-1]["id"]])
            tb["per"].append(p)
        saddrs = rng.sample(range(0, 40), 6) if rng.random() < 0.7 else rng.sample(range(256), 6)
        for _ in range(rng.choice([0, 1, 2, 3, 5]) if not small else rng.choice([1, 2, 3])):
            tb["seg"].append({"id": nid("seg"), "addr": saddrs.pop(), "length": "%d.%dcm" % (rng.randrange(200), rng.randrange(10))})
        cvs = rng.sample(range(1, 65000), 2)
        for _ in range(rng.choice([0, 0, 1, 2])):
            tb["rev"].append({"id": nid("rev"), "cv": str(cvs.pop())})
        track.append(tb)
    rng.shuffle(track)
    trains = []
    for _ in range(nt):
        al, ah = dcc()
        t = {"id": nid("train"), "al": al, "ah": ah, "steps": rng.choice([14, 28, 126])}
        if rng.random() < 0.5: t["cal"] = sorted(rng.sample(range(1, 127), 9))
        # function bits cluster in MSG_CS_DRIVE groups; the first and the last bit of a group are the interesting ones
        groups = [(0, 4), (8, 11), (12, 15), (16, 23), (24, 31)]
        bits = set()
        for lo, hi in rng.sample(groups, rng.choice([0, 1, 1, 2, 3])):
            bits.update(rng.sample([lo, hi, lo, hi] + list(range(lo, hi + 1)), rng.choice([1, 2, 3])))
        bits = sorted(bits) + ([rng.choice([5, 6, 7])] if allow_hi_bits else [])
        rng.shuffle(bits)
        t["per"] = [{"id": nid("fn"), "bit": b, "initial": rng.choice([None, 0, 1])} for b in bits]
        trains.append(t)
    return {"boards": boards, "track": track, "trains": trains}

def state_tests_like():
    """the repository's state-test configuration as a model value"""
    return {"boards": [{"id": "board1", "uid": [0xDA, 0, 0x0D, 0x68, 0, 1, 0xEE], "features": [[1, 0], [4, 1]]}],
            "track": [{"id": "board1",
                       "pb": [{"id": "point1", "num": 2, "aspects": [{"id": "normal", "val": 1}, {"id": "reverse", "val": 0}], "initial": "normal"}],
                       "pd": [{"id": "point2", "al": 0x22, "ah": 0x11, "ext": 0, "initial": None,
                               "aspects": [{"id": "normal", "ports": [[0, 1], [1, 0]]}, {"id": "reverse", "ports": [[0, 0], [1, 1]]}]}],
                       "sb": [{"id": "signal1", "num": 0x10, "aspects": [{"id": "green", "val": 2}, {"id": "orange", "val": 1}, {"id": "red", "val": 0}], "initial": "red"}],
                       "sd": [],
                       "per": [{"id": "led1", "num": 0, "p0": 0x23, "p1": 0x01, "aspects": [{"id": "state1", "val": 0}, {"id": "state2", "val": 1}], "initial": "state2"}],
                       "seg": [{"id": "seg1", "addr": 0}, {"id": "seg2", "addr": 1}, {"id": "seg3", "addr": 2}],
                       "rev": [{"id": "reverser1", "cv": "30051"}]}],
            "trains": [{"id": "train1", "al": 0x23, "ah": 0x01, "steps": 14, "per": [{"id": "light", "bit": 4, "initial": None}]},
                       {"id": "train2", "al": 0x02, "ah": 0x03, "steps": 14, "per": []}]}

def paths(cfg, tree=None):
    """default bus tree: first board is the interface at <<>>, the others are its children 1..n (path lists)"""
    out = {}
    for i, b in enumerate(cfg["boards"]):
        out[b["id"]] = [] if i == 0 else [i]
    return out
