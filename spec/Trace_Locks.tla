---------------------------- MODULE Trace_Locks ----------------------------
(* Validation of recorded lock programs (C11): every program is balanced, never asks for a lock in a way that blocks
   on itself, and the union of all nesting pairs ("inner acquired while outer held") stays acyclic - one global order.
   Events: prog name thr ops / reset *)
EXTENDS Locks, Json, IOUtils, TLC

VARIABLES l, order, progs, notes
tlvars == <<l, order, progs, notes>>
Tr == ndJsonDeserialize(IOEnv.TRACE)
Ev == Tr[l]
IsEv(k) == l <= Len(Tr) /\ Tr[l].e = k /\ l' = l + 1
Ops(ev) == [i \in DOMAIN ev.ops |-> [op |-> ev.ops[i][1], l |-> ev.ops[i][2]]]

TInit == l = 1 /\ order = {} /\ progs = 0 /\ notes = {}
TProg == /\ IsEv("prog")
         /\ LET r == Run(Ops(Ev)) IN
            /\ r.bad \subseteq {"recursive-read"}            \* balanced, no self-deadlock, no release of a lock not held
            /\ order' = order \cup r.edges
            /\ notes' = notes \cup r.bad
         /\ progs' = progs + 1
TNext == TProg
TSpec == TInit /\ [][TNext]_tlvars
OrderAcyclic == Acyclic(order)
TraceAccepted == TLCGet("stats").diameter - 1 = Len(Tr)
NotAccepted == l <= Len(Tr)
(* the order found is printed for the evidence *)
Report == l <= Len(Tr) \/ PrintT(<<"ORDER", order, "NOTES", notes>>)
=============================================================================
