SPECIFICATION TSpec
CONSTANTS Q = {}
  QMax = 128
  TQ = {}
INVARIANTS Budget DeferFIFOOnce StallSilence SeqConsecutive TrainsAgree
POSTCONDITION TraceAccepted
CHECK_DEADLOCK FALSE
