------------------------------- MODULE Bytes -------------------------------
(***************************************************************************)
(* BiDiB serial framing, written from the protocol rules (not from the C   *)
(* code): delimiter 0xFE, escape 0xFD (next byte XOR 0x20), CRC8 with      *)
(* polynomial x^8+x^5+x^4+1 (reflected, table driven, init 0) over the     *)
(* unescaped payload, transmitted (escaped if needed) before the closing   *)
(* delimiter.  A payload is a concatenation of messages                    *)
(*     len | addr .. | 0 | seq | type | data ..       (len = bytes after)  *)
(* Bytes are naturals 0..255, byte strings are sequences.                  *)
(***************************************************************************)
EXTENDS Naturals, Sequences, SequencesExt, Bitwise, FiniteSets

MAGIC  == 254
ESCAPE == 253

Byte == 0..255

CrcTab == <<
   0,  94, 188, 226,  97,  63, 221, 131, 194, 156, 126,  32, 163, 253,  31,  65,
 157, 195,  33, 127, 252, 162,  64,  30,  95,   1, 227, 189,  62,  96, 130, 220,
  35, 125, 159, 193,  66,  28, 254, 160, 225, 191,  93,   3, 128, 222,  60,  98,
 190, 224,   2,  92, 223, 129,  99,  61, 124,  34, 192, 158,  29,  67, 161, 255,
  70,  24, 250, 164,  39, 121, 155, 197, 132, 218,  56, 102, 229, 187,  89,   7,
 219, 133, 103,  57, 186, 228,   6,  88,  25,  71, 165, 251, 120,  38, 196, 154,
 101,  59, 217, 135,   4,  90, 184, 230, 167, 249,  27,  69, 198, 152, 122,  36,
 248, 166,  68,  26, 153, 199,  37, 123,  58, 100, 134, 216,  91,   5, 231, 185,
 140, 210,  48, 110, 237, 179,  81,  15,  78,  16, 242, 172,  47, 113, 147, 205,
  17,  79, 173, 243, 112,  46, 204, 146, 211, 141, 111,  49, 178, 236,  14,  80,
 175, 241,  19,  77, 206, 144, 114,  44, 109,  51, 209, 143,  12,  82, 176, 238,
  50, 108, 142, 208,  83,  13, 239, 177, 240, 174,  76,  18, 145, 207,  45, 115,
 202, 148, 118,  40, 171, 245,  23,  73,   8,  86, 180, 234, 105,  55, 213, 139,
  87,   9, 235, 181,  54, 104, 138, 212, 149, 203,  41, 119, 244, 170,  72,  22,
 233, 183,  85,  11, 136, 214,  52, 106,  43, 117, 151, 201,  74,  20, 246, 168,
 116,  42, 200, 150,  21,  75, 169, 247, 182, 232,  10,  84, 215, 137, 107,  53 >>

BXor(a, b) == a ^^ b

(* the table is the bitwise definition of the polynomial: checked by ASSUME in BytesMC *)
RECURSIVE CrcBit(_, _)
CrcBit(c, k) == IF k = 0 THEN c
                ELSE CrcBit(IF c % 2 = 1 THEN BXor(c \div 2, 140) ELSE c \div 2, k - 1)
CrcByteDef(c, b) == CrcBit(BXor(c, b), 8)

CrcStep(c, b) == CrcTab[BXor(b, c) + 1]
Crc8(s) == FoldLeft(CrcStep, 0, s)

EscByte(b) == IF b = MAGIC \/ b = ESCAPE THEN <<ESCAPE, BXor(b, 32)>> ELSE <<b>>
EscSeq(s) == FoldLeft(LAMBDA acc, b : acc \o EscByte(b), <<>>, s)

(* one packet on the wire *)
EncodePacket(payload) == <<MAGIC>> \o EscSeq(payload \o <<Crc8(payload)>>) \o <<MAGIC>>

(* message layout *)
AddrBytes(addr) == addr \o <<0>>                      \* addr: sequence of 0..3 non-zero bytes
MsgBytes(addr, seq, ty, data) ==
    LET body == AddrBytes(addr) \o <<seq, ty>> \o data IN <<Len(body)>> \o body

(***************************************************************************)
(* Declarative decoder.                                                    *)
(***************************************************************************)
(* split a byte string at every MAGIC; returns the sequence of maximal MAGIC-free runs that are
   *closed* by a MAGIC (the trailing unterminated run is not a frame); empty runs are dropped.
   "synced" says whether a MAGIC has already been seen before the first byte of s. *)
RECURSIVE FramesR(_, _, _, _)
FramesR(s, i, cur, acc) ==
    IF i > Len(s) THEN acc
    ELSE IF s[i] = MAGIC THEN FramesR(s, i + 1, <<>>, IF cur = <<>> THEN acc ELSE Append(acc, cur))
    ELSE FramesR(s, i + 1, Append(cur, s[i]), acc)

FirstMagic(s) == IF \E i \in 1..Len(s) : s[i] = MAGIC
                 THEN CHOOSE i \in 1..Len(s) : s[i] = MAGIC /\ \A j \in 1..(i-1) : s[j] # MAGIC
                 ELSE 0

(* frames of a stream seen from power-up: everything before the first MAGIC is line noise *)
Frames(s) == LET f == FirstMagic(s) IN IF f = 0 THEN <<>> ELSE FramesR(s, f + 1, <<>>, <<>>)
(* frames of a stream that starts at a packet boundary (downlink capture) *)
FramesSynced(s) == FramesR(s, 1, <<>>, <<>>)

(* remainder after the last MAGIC (bytes of a not yet closed frame) *)
RECURSIVE TailR(_, _, _)
TailR(s, i, cur) == IF i > Len(s) THEN cur
                    ELSE IF s[i] = MAGIC THEN TailR(s, i + 1, <<>>) ELSE TailR(s, i + 1, Append(cur, s[i]))

ProperlyEscaped(f) == /\ \A i \in 1..Len(f) : f[i] = ESCAPE => (i < Len(f) /\ f[i+1] # ESCAPE)
RECURSIVE UnescR(_, _, _)
UnescR(f, i, acc) == IF i > Len(f) THEN acc
                     ELSE IF f[i] = ESCAPE
                          THEN IF i = Len(f) THEN acc ELSE UnescR(f, i + 2, Append(acc, BXor(f[i+1], 32)))
                          ELSE UnescR(f, i + 1, Append(acc, f[i]))
Unesc(f) == UnescR(f, 1, <<>>)

(* exactly what a conforming sender may emit for a byte string *)
CanonicalEscaped(f) == f = EscSeq(Unesc(f))

CrcOk(p) == Len(p) >= 2 /\ Crc8(p) = 0
Payload(p) == SubSeq(p, 1, Len(p) - 1)

(* split a payload into messages by the length prefix; <<>> if it does not split exactly *)
RECURSIVE SplitR(_, _, _)
SplitR(p, i, acc) ==
    IF i > Len(p) THEN acc
    ELSE LET l == p[i] IN
         IF i + l > Len(p) THEN <<>>           \* truncated last message
         ELSE SplitR(p, i + l + 1, Append(acc, SubSeq(p, i, i + l)))
SplitMsgs(p) == IF Len(p) = 0 THEN <<>> ELSE SplitR(p, 1, <<>>)

(* index of the address terminator in a message, 0 if none within the first 4 address positions *)
TermIdx(m) == IF \E i \in 2..Len(m) : i <= 5 /\ m[i] = 0
              THEN CHOOSE i \in 2..Len(m) : i <= 5 /\ m[i] = 0 /\ \A j \in 2..(i-1) : m[j] # 0
              ELSE 0
MsgWellFormed(m) == /\ Len(m) >= 4
                    /\ m[1] = Len(m) - 1
                    /\ TermIdx(m) # 0
                    /\ TermIdx(m) + 2 <= Len(m)
PayloadWellFormed(p) == /\ Len(p) > 0
                        /\ SplitMsgs(p) # <<>>
                        /\ \A k \in 1..Len(SplitMsgs(p)) : MsgWellFormed(SplitMsgs(p)[k])

ParseMsg(m) == LET t == TermIdx(m) IN
    [addr |-> SubSeq(m, 2, t - 1), seq |-> m[t + 1], ty |-> m[t + 2], data |-> SubSeq(m, t + 3, Len(m))]

(* a frame the property speaks about: canonical escapes, good CRC, whole well-formed messages *)
GoodFrame(f) == /\ ProperlyEscaped(f)
                /\ CrcOk(Unesc(f))
                /\ PayloadWellFormed(Payload(Unesc(f)))
BadCrcFrame(f) == ProperlyEscaped(f) /\ ~CrcOk(Unesc(f))

FrameMsgs(f) == SplitMsgs(Payload(Unesc(f)))

(* all messages of all good frames, in order (raw message byte strings) *)
GoodMsgs(frames) == FoldLeft(LAMBDA acc, f : IF GoodFrame(f) THEN acc \o FrameMsgs(f) ELSE acc, <<>>, frames)

(* well-formedness of a downlink capture: a sequence of complete packets, nothing else *)
WireWellFormed(s) ==
    IF Len(s) = 0 THEN TRUE
    ELSE /\ s[1] = MAGIC /\ s[Len(s)] = MAGIC
         /\ LET fs == FramesSynced(s) IN \A k \in 1..Len(fs) : CanonicalEscaped(fs[k]) /\ GoodFrame(fs[k])
         /\ \A i \in 1..(Len(s) - 2) : ~(s[i] = MAGIC /\ s[i+1] = MAGIC /\ s[i+2] = MAGIC)
WirePackets(s) == LET fs == FramesSynced(s) IN [k \in 1..Len(fs) |-> FrameMsgs(fs[k])]
Flatten(ss) == FoldLeft(LAMBDA acc, x : acc \o x, <<>>, ss)
=============================================================================
