----------------------------- MODULE LifecycleMC -----------------------------
(* All sequences of start / stop / capacity announcements with every combination of configuration validity, mode,
   auto-flush and interface behaviour, bounded by the number of sessions.  hist is a ghost history for replay. *)
EXTENDS Lifecycle, TLC, Json

CONSTANTS MaxSess, MaxEv, SimDepth
VARIABLES n, hist
mcv == <<running, handles, threads, badjoins, glob, sess, n, hist>>

MCInit == LInit /\ n = 0 /\ hist = <<>>
MCNext == /\ n < MaxEv
          /\ n' = n + 1
          /\ \/ \E cfgok \in {"ok", "bad", "none"}, debug, flush, works \in BOOLEAN, ret \in {0, 1} :
                   /\ sess < MaxSess \/ running
                   /\ Start(cfgok, debug, flush, works, ret)
                   /\ hist' = Append(hist, [e |-> "start", cfgok |-> cfgok, debug |-> debug, flush |-> flush, works |-> works, cap |-> 0])
             \/ \E dev \in {"missing", "null"}, cfgok \in {"ok", "bad"}, ret \in {0, 1} :
                   /\ sess < MaxSess \/ running
                   /\ StartSerial(dev, cfgok, ret)
                   /\ hist' = Append(hist, [e |-> "startserial", cfgok |-> cfgok, debug |-> FALSE, flush |-> FALSE, works |-> FALSE, cap |-> 0])
             \/ Stop /\ hist' = Append(hist, [e |-> "stop", cfgok |-> "", debug |-> FALSE, flush |-> FALSE, works |-> FALSE, cap |-> 0])
             \/ \E c \in {32, 200} : Capacity(c) /\ hist' = Append(hist, [e |-> "cap", cfgok |-> "", debug |-> FALSE, flush |-> FALSE, works |-> FALSE, cap |-> c])
MCSpec == MCInit /\ [][MCNext]_mcv
View == <<running, handles, threads, badjoins, glob, sess, n>>
Emit == Len(hist) < SimDepth \/ PrintT(<<"HIST", ToJson(hist)>>)
=============================================================================
