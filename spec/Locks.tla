------------------------------- MODULE Locks -------------------------------
(***************************************************************************)
(* The library's 15 locks (2 rwlocks, 13 mutexes) and the lock programs of *)
(* its calls (C11).  A lock program is the sequence of acquire / release   *)
(* operations one call (or the receiver thread while it processes one      *)
(* message) performs: <<[op, l]>> with op in "m" (mutex lock), "r"         *)
(* (rdlock), "w" (wrlock), "u" (unlock).  Programs are recorded from the   *)
(* real code (link-time wrappers of the pthread functions), the rules they *)
(* have to obey and the interleavings of several of them are stated here.  *)
(*                                                                         *)
(* rwlock semantics: glibc's default (reader preferring): rdlock is granted*)
(* unless a writer holds the lock; wrlock needs the lock free.  A thread   *)
(* that asks for a mutex / write lock it already holds in any mode, or for *)
(* a read lock while it write-holds, blocks forever.                       *)
(***************************************************************************)
EXTENDS Naturals, Sequences, FiniteSets

RangeS(s) == {s[i] : i \in DOMAIN s}

(* ---- one program alone: held = sequence of [l, mode] in acquisition order *)
HoldsAny(held, l) == \E i \in DOMAIN held : held[i].l = l
HoldsW(held, l) == \E i \in DOMAIN held : held[i].l = l /\ held[i].mode \in {"m", "w"}
LastIdx(held, l) == CHOOSE i \in DOMAIN held : held[i].l = l /\ \A j \in DOMAIN held : held[j].l = l => j <= i
Without(held, i) == SubSeq(held, 1, i - 1) \o SubSeq(held, i + 1, Len(held))

(* result of running program p alone: [bad: set of defects, edges: set of <<outer, inner>>, held: what is left] *)
RECURSIVE RunR(_, _, _, _, _)
RunR(p, i, held, bad, edges) ==
    IF i > Len(p) THEN [bad |-> IF held = <<>> THEN bad ELSE bad \cup {"unbalanced"}, edges |-> edges, held |-> held]
    ELSE LET o == p[i] IN
         IF o.op = "u"
         THEN IF ~HoldsAny(held, o.l) THEN RunR(p, i + 1, held, bad \cup {"release-not-held"}, edges)
              ELSE RunR(p, i + 1, Without(held, LastIdx(held, o.l)), bad, edges)
         ELSE LET self == IF o.op \in {"m", "w"} THEN HoldsAny(held, o.l) ELSE HoldsW(held, o.l)
                  rec == o.op = "r" /\ HoldsAny(held, o.l) /\ ~HoldsW(held, o.l)
                  ne == {<<held[k].l, o.l>> : k \in {x \in DOMAIN held : held[x].l # o.l}}
              IN RunR(p, i + 1, Append(held, [l |-> o.l, mode |-> o.op]),
                      bad \cup (IF self THEN {"self-deadlock"} ELSE {}) \cup (IF rec THEN {"recursive-read"} ELSE {}), edges \cup ne)
Run(p) == RunR(p, 1, <<>>, {}, {})

(* ---- nesting order *)
Nodes(E) == {e[1] : e \in E} \cup {e[2] : e \in E}
RECURSIVE Reach(_, _, _)
Reach(E, S, n) == IF n = 0 THEN S ELSE Reach(E, S \cup {e[2] : e \in {x \in E : x[1] \in S}}, n - 1)
Acyclic(E) == \A v \in Nodes(E) : v \notin Reach(E, {e[2] : e \in {x \in E : x[1] = v}}, Cardinality(Nodes(E)))
=============================================================================
