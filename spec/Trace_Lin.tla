----------------------------- MODULE Trace_Lin -----------------------------
(***************************************************************************)
(* Linearisability of concurrent executions (C10, and the "readers racing  *)
(* the receiver" clause of C06).  The real library runs several            *)
(* application threads (getters, queue readers, high-level commands) next  *)
(* to its receiver under the baton scheduler; every completed call is one  *)
(* event (ordered by a global stamp taken under the scheduler's lock).     *)
(* What the receiver does with a fed message is NOT logged: it is a silent *)
(* step of this specification that may happen anywhere after the bytes     *)
(* were fed - first the effect on the tracked state, then the queue entry -*)
(* and TLC searches for a placement of the silent steps that explains      *)
(* every result.  No placement = some result is not a state that existed   *)
(* (torn / stale entity, message returned twice or lost).                  *)
(* Events: start cfg tree st debug / fed n ty d sq / get k id res / rd k m / hl fn s i ret / quiesce qm qe qi st nost *)
(***************************************************************************)
EXTENDS Track, Dispatch, Bytes, Json, IOUtils, TLC

VARIABLES l, cfg, ts, uq, pend, dbg
lv == <<l, cfg, ts, uq, pend, dbg>>
Tr == ndJsonDeserialize(IOEnv.TRACE)
Ev == Tr[l]
IsEv(k) == l <= Len(Tr) /\ Tr[l].e = k /\ l' = l + 1
Empty == [boards |-> <<>>, track |-> <<>>, trains |-> <<>>]

LInit == TLCSet(1, 0) /\ l = 1 /\ cfg = Empty /\ ts = State0(Empty) /\ uq = QEmpty /\ pend = <<>> /\ dbg = 0

LStart == /\ IsEv("start")
          /\ pend = <<>>
          /\ cfg' = Ev.cfg /\ dbg' = Ev.debug
          /\ LET r == StartState(Ev.cfg, PathsOf(Ev.cfg, Ev.tree)) IN
             /\ ts' = r.ts
             /\ IF Ev.nost = 1 THEN TRUE ELSE Matches(Ev.cfg, r.ts, Ev.st)
          /\ uq' = QEmpty /\ pend' = <<>>

(* sy = 1: fed outside the concurrent section - the driver waited until the receiver was idle again, so the message is
   completely processed when the event ends; sy = 0: fed inside the concurrent section, processed whenever the receiver runs *)
LFed == /\ IsEv("fed")
        /\ IF Ev.sy = 1
           THEN /\ pend = <<>>
                /\ LET r == Up(cfg, ts, Ev.n, Ev.ty, Ev.d)
                       dest == IF dbg = 1 THEN DebugDest(Ev.ty) ELSE r.q
                   IN /\ ts' = (IF dbg = 1 THEN ts ELSE r.ts)
                      /\ uq' = QPush(uq, dest, MsgBytes(Ev.n, Ev.sq, Ev.ty, Ev.d))
                /\ UNCHANGED pend
           ELSE /\ pend' = Append(pend, [n |-> Ev.n, ty |-> Ev.ty, d |-> Ev.d, sq |-> Ev.sq, ph |-> 1])
                /\ UNCHANGED <<ts, uq>>
        /\ UNCHANGED <<cfg, dbg>>

(* silent: the receiver's next step on the oldest unprocessed message: phase 1 = tracked state, phase 2 = queue *)
LProc == /\ pend # <<>> /\ l <= Len(Tr)
         /\ LET m == Head(pend)
                r == Up(cfg, ts, m.n, m.ty, m.d)
                dest == IF dbg = 1 THEN DebugDest(m.ty) ELSE r.q
            IN IF m.ph = 1
               THEN /\ ts' = (IF dbg = 1 THEN ts ELSE r.ts)
                    /\ pend' = <<[m EXCEPT !.ph = 2]>> \o Tail(pend)
                    /\ UNCHANGED uq
               ELSE /\ uq' = QPush(uq, dest, MsgBytes(m.n, m.sq, m.ty, m.d))
                    /\ pend' = Tail(pend)
                    /\ UNCHANGED ts
         /\ UNCHANGED <<l, cfg, dbg>>

LGet == /\ IsEv("get")
        /\ GetMatches(cfg, ts, Ev.k, Ev.id, Ev.res)
        /\ UNCHANGED <<cfg, ts, uq, pend, dbg>>
LRd == /\ IsEv("rd")
       /\ LET r == QRead(uq, Ev.k) IN
          /\ Ev.m = (IF r.ok THEN r.res ELSE <<>>)
          /\ uq' = r.uq
       /\ UNCHANGED <<cfg, ts, pend, dbg>>
LHl == /\ IsEv("hl")
       /\ LET r == Cmd(cfg, ts, [fn |-> Ev.fn, s |-> Ev.s, i |-> Ev.i]) IN Ev.ret = r.ret /\ ts' = r.ts
       /\ UNCHANGED <<cfg, uq, pend, dbg>>
(* after the concurrent section: everything fed has been processed; the remaining queue contents and the whole state *)
(* everything written during the concurrent section (in the order of the write calls): well-formed packets, whole
   messages, and per node the sequence numbers of one uninterrupted series - a packet garbled, repeated or lost by
   overlapping flushes / write calls breaks one of the three *)
IncS(x) == IF x = 255 THEN 1 ELSE x + 1
(* one pass over the messages (FoldLeft evaluates its sequence argument once): acc = [ok, last sequence number per node] *)
SeqStep(acc, raw) ==
    LET m == ParseMsg(raw)
        p == IF m.addr \in DOMAIN acc.last THEN acc.last[m.addr] ELSE 0
    IN [ok |-> acc.ok /\ (p = 0 \/ m.seq = 0 \/ m.seq = IncS(p)),
        last |-> [a \in DOMAIN acc.last \cup {m.addr} |-> IF a = m.addr THEN m.seq ELSE acc.last[a]]]
WireOk(w) ==
    IF w = <<>> THEN TRUE
    ELSE /\ WireWellFormed(w)
         /\ FoldLeft(SeqStep, [ok |-> TRUE, last |-> << >>], Flatten(WirePackets(w))).ok

LQuiesce == /\ IsEv("quiesce")
            /\ pend = <<>>
            /\ WireOk(Ev.w)
            /\ Ev.qm = uq.msg /\ Ev.qe = uq.err /\ Ev.qi = uq.int
            /\ IF Ev.nost = 1 THEN TRUE ELSE Matches(cfg, ts, Ev.st)
            /\ uq' = QEmpty
            /\ UNCHANGED <<cfg, ts, pend, dbg>>
LNext == LStart \/ LFed \/ LProc \/ LGet \/ LRd \/ LHl \/ LQuiesce
LSpec == LInit /\ [][LNext]_lv
(* acceptance: some placement of the silent steps consumes every event *)
NotAccepted == l <= Len(Tr)
(* diagnostics: the longest prefix any placement could explain (single worker) *)
Progress == IF l > TLCGet(1) THEN TLCSet(1, l) ELSE TRUE
Report == PrintT(<<"MAXL", TLCGet(1)>>)
=============================================================================
