#!/bin/sh
# offline setup: parse every specification module, build the driver once
cd "$(dirname "$0")/.." || exit 2
rc=0
T=$(mktemp -d /tmp/vsetup.XXXXXX)          # SANY unpacks its standard modules into java.io.tmpdir: removed at the end
for f in spec/*.tla; do
  ( cd spec && java -Djava.io.tmpdir="$T" -cp /opt/veriftools/tla/tla2tools.jar:/opt/veriftools/tla/CommunityModules-deps.jar tla2sany.SANY "$(basename "$f")" >/tmp/vsany.$$ 2>&1 ) || { cat /tmp/vsany.$$; rc=2; }
  if grep -q "Fatal errors\|\*\*\* Errors" /tmp/vsany.$$; then echo "SANY: $f"; cat /tmp/vsany.$$; rc=2; fi
done
rm -f /tmp/vsany.$$
rm -rf "$T"
python3 tools/vlib/build.py asan || rc=2
exit $rc
