/*
 * vdrv - verification driver for libbidib.
 *
 * Linked against object files rebuilt from /repo/src (no source change).
 * Reads a line-oriented script, executes it against the real library and
 * prints one JSON object per executed command (the raw trace).  Decoding of
 * the wire bytes and the translation into ndjson events for the TLA+ trace
 * specifications happens in tools/ (python) and in TLA+ itself.
 *
 * Seams (DESIGN.md section 4):
 *   - read / write callbacks handed to bidib_start_pointer
 *   - time(), usleep(), syslog(), openlog(), closelog() defined here pre-empt libc
 *   - pthread_* wrapped with -Wl,--wrap (see wrap.c)
 *
 * Script grammar: see DESIGN.md appendix A (text form: one command per line,
 * blank separated tokens, bytes in hex without prefix).
 */
#define _GNU_SOURCE
#include <stdio.h>
#include <stdlib.h>
#include <string.h>
#include <stdint.h>
#include <stdbool.h>
#include <stdarg.h>
#include <pthread.h>
#include <unistd.h>
#include <errno.h>
#include <signal.h>
#include <time.h>
#include <sys/wait.h>
#include <sys/time.h>

#include "vdrv.h"

extern int __lsan_do_recoverable_leak_check(void) __attribute__((weak));

/* ------------------------------------------------------------------ output */

FILE *vout_real;
__thread FILE *vout = NULL;           /* per-thread memory stream of the line being built */
static __thread char *vo_buf = NULL; static __thread size_t vo_len = 0;

static pthread_mutex_t out_mu = PTHREAD_MUTEX_INITIALIZER;

/* a command builds its output line in memory (it may call into the library meanwhile) and emits it atomically */
void out_lock(void) { vout = open_memstream(&vo_buf, &vo_len); }
void out_unlock(void) {
	fclose(vout); vout = NULL;
	pthread_mutex_lock(&out_mu);
	fwrite(vo_buf, 1, vo_len, vout_real); fflush(vout_real);
	pthread_mutex_unlock(&out_mu);
	free(vo_buf); vo_buf = NULL; vo_len = 0;
}
void out_raw(const char *s) {
	pthread_mutex_lock(&out_mu);
	fputs(s, vout_real); fflush(vout_real);
	pthread_mutex_unlock(&out_mu);
}

void out_hex(const uint8_t *b, size_t n) {
	static const char *hx = "0123456789abcdef";
	fputc('"', vout);
	for (size_t i = 0; i < n; i++) {
		fputc(hx[b[i] >> 4], vout);
		fputc(hx[b[i] & 15], vout);
	}
	fputc('"', vout);
}

void out_str(const char *s) {
	if (s == NULL) { fputs("null", vout); return; }
	fputc('"', vout);
	for (; *s; s++) {
		unsigned char c = (unsigned char) *s;
		if (c == '"' || c == '\\') { fputc('\\', vout); fputc(c, vout); }
		else if (c < 0x20 || c >= 0x7f) fprintf(vout, "\\u%04x", c);
		else fputc(c, vout);
	}
	fputc('"', vout);
}

/* ------------------------------------------------------------ virtual time */

static pthread_mutex_t vt_mu = PTHREAD_MUTEX_INITIALIZER;
static uint64_t vt_us = 0;                 /* virtual microseconds since process start */
#define VT_BASE 1700000000L

/* threads that execute script commands; everybody else is a library thread */
#define MAX_SCRIPT_THREADS 64
static pthread_t script_threads[MAX_SCRIPT_THREADS];
static _Atomic int n_script_threads = 0;

static __thread int i_am_script = 0;
void vt_register_script_thread(void) {
	pthread_mutex_lock(&vt_mu);
	if (n_script_threads < MAX_SCRIPT_THREADS) script_threads[n_script_threads++] = pthread_self();
	i_am_script = 1;
	pthread_mutex_unlock(&vt_mu);
}

static bool is_script_thread(void) { return i_am_script != 0; }

static void real_sleep_us(long us) {
	struct timespec ts = { us / 1000000, (us % 1000000) * 1000 };
	while (nanosleep(&ts, &ts) == -1 && errno == EINTR) {}
}

void vt_advance_us(uint64_t us) {
	pthread_mutex_lock(&vt_mu);
	vt_us += us;
	pthread_mutex_unlock(&vt_mu);
}

uint64_t vt_now_us(void) {
	pthread_mutex_lock(&vt_mu);
	uint64_t v = vt_us;
	pthread_mutex_unlock(&vt_mu);
	return v;
}

time_t time(time_t *t) {
	time_t v = (time_t) (VT_BASE + (long) (vt_now_us() / 1000000));
	if (t) *t = v;
	return v;
}

static long lib_poll_us = 60;      /* real sleep of a polling library thread */
static bool autoflush_vt = false;  /* reserved */

int usleep(useconds_t us) {
	if (sched_hook_usleep(us)) return 0;     /* baton scheduler active: handled there */
	if (is_script_thread()) {
		vt_advance_us(us);
		if (bidib_running) rx_wait_idle(400);
	} else {
		real_sleep_us(lib_poll_us);
	}
	return 0;
}

/* ------------------------------------------------------------------ syslog */

static int log_keep = 0;
#define LOGRING 64
static char *logring[LOGRING];
static int logring_n = 0;
static pthread_mutex_t log_mu = PTHREAD_MUTEX_INITIALIZER;
static _Atomic unsigned long log_count = 0;

void openlog(const char *ident, int option, int facility) { (void) ident; (void) option; (void) facility; }
void closelog(void) {}
void syslog(int pri, const char *fmt, ...) {
	(void) pri;
	log_count++;
	if (!log_keep) return;
	char buf[1200];
	va_list ap; va_start(ap, fmt); vsnprintf(buf, sizeof buf, fmt, ap); va_end(ap);
	pthread_mutex_lock(&log_mu);
	free(logring[logring_n % LOGRING]);
	logring[logring_n % LOGRING] = strdup(buf);
	logring_n++;
	pthread_mutex_unlock(&log_mu);
	if (log_keep > 1) fprintf(stderr, "LOG %s\n", buf);
}

/* ------------------------------------------------------ uplink byte queue */

#define UPQ (1 << 22)
static uint8_t *upq;
static size_t up_r = 0, up_w = 0;
static pthread_mutex_t up_mu = PTHREAD_MUTEX_INITIALIZER;
static pthread_cond_t up_cv = PTHREAD_COND_INITIALIZER;
static bool rx_idle = false;
static unsigned long rx_polls = 0;
static unsigned long rx_consumed = 0;
static long gap_budget = -1;      /* >=0: hand out that many bytes, then report "no byte" once */
static int *gap_list = NULL; static int gap_n = 0, gap_i = 0; static long gap_cnt = 0;

void up_feed(const uint8_t *b, size_t n) {
	pthread_mutex_lock(&up_mu);
	for (size_t i = 0; i < n; i++) { upq[up_w % UPQ] = b[i]; up_w++; }
	rx_idle = false;
	pthread_cond_broadcast(&up_cv);
	pthread_mutex_unlock(&up_mu);
}

/* read gaps: after each gap_list[i] bytes the callback answers "no byte" once */
void up_set_gaps(int *g, int n) {
	pthread_mutex_lock(&up_mu);
	free(gap_list); gap_list = g; gap_n = n; gap_i = 0; gap_cnt = 0;
	pthread_mutex_unlock(&up_mu);
}

static uint8_t cb_read(int *ok) {
	sched_point("read");
	uint8_t v = 0;
	pthread_mutex_lock(&up_mu);
	rx_polls++;
	if (up_r == up_w) {
		*ok = 0;
		rx_idle = true;
		pthread_cond_broadcast(&up_cv);
	} else if (gap_i < gap_n && gap_cnt == gap_list[gap_i]) {
		/* scripted read gap: pretend the line is silent for one poll */
		gap_i++; gap_cnt = 0;
		*ok = 0;
	} else {
		v = upq[up_r % UPQ]; up_r++; rx_consumed++; gap_cnt++;
		*ok = 1;
	}
	pthread_mutex_unlock(&up_mu);
	return v;
}

/* bytes fed and not yet handed to the receiver */
bool up_pending(void) {
	pthread_mutex_lock(&up_mu);
	bool p = up_r != up_w;
	pthread_mutex_unlock(&up_mu);
	return p;
}

/* wait (real time, bounded) until the receiver has consumed everything fed and polled again */
bool rx_wait_idle(int max_ms) {
	if (sched_active()) return true;
	struct timespec dl; clock_gettime(CLOCK_REALTIME, &dl);
	dl.tv_sec += max_ms / 1000; dl.tv_nsec += (long) (max_ms % 1000) * 1000000L;
	if (dl.tv_nsec >= 1000000000L) { dl.tv_sec++; dl.tv_nsec -= 1000000000L; }
	bool ok = true;
	pthread_mutex_lock(&up_mu);
	rx_idle = false;               /* require a fresh poll after this point */
	while (!(up_r == up_w && rx_idle)) {
		if (pthread_cond_timedwait(&up_cv, &up_mu, &dl) == ETIMEDOUT) { ok = (up_r == up_w && rx_idle); break; }
	}
	pthread_mutex_unlock(&up_mu);
	return ok;
}

/* -------------------------------------------------------- downlink capture */

#define WIREMAX (1 << 22)
static uint8_t *wire; static size_t wire_n = 0;
#define CHUNKMAX (1 << 18)
static uint32_t *chunk_len; static size_t chunk_n = 0;
static pthread_mutex_t wire_mu = PTHREAD_MUTEX_INITIALIZER;
static unsigned long wire_total = 0;

static void cb_write(uint8_t *b, int32_t n) {
	sched_point("write");
	if (b == NULL || n <= 0) return;
	pthread_mutex_lock(&wire_mu);
	if (wire_n + (size_t) n <= WIREMAX && chunk_n < CHUNKMAX) {
		memcpy(wire + wire_n, b, (size_t) n); wire_n += (size_t) n;
		chunk_len[chunk_n++] = (uint32_t) n;
	}
	wire_total += (unsigned long) n;
	pthread_mutex_unlock(&wire_mu);
	sched_log_write(b, (size_t) n);
	bus_downlink(b, (size_t) n);
}

/* prints ,"wire":["..",".."] and clears the capture */
void out_wire(void) {
	pthread_mutex_lock(&wire_mu);
	fputs(",\"wire\":[", vout);
	size_t off = 0;
	for (size_t i = 0; i < chunk_n; i++) {
		if (i) fputc(',', vout);
		out_hex(wire + off, chunk_len[i]);
		off += chunk_len[i];
	}
	fputc(']', vout);
	wire_n = 0; chunk_n = 0;
	pthread_mutex_unlock(&wire_mu);
}

/* -------------------------------------------------------------- utilities */

int hexval(int c) {
	if (c >= '0' && c <= '9') return c - '0';
	if (c >= 'a' && c <= 'f') return c - 'a' + 10;
	if (c >= 'A' && c <= 'F') return c - 'A' + 10;
	return -1;
}

/* parse a hex string into bytes; "-" is the empty string; returns length or -1 */
int parse_hex(const char *s, uint8_t *dst, int max) {
	if (s == NULL) return -1;
	if (strcmp(s, "-") == 0) return 0;
	int n = 0;
	while (s[0] && s[1]) {
		int a = hexval(s[0]), b = hexval(s[1]);
		if (a < 0 || b < 0 || n >= max) return -1;
		dst[n++] = (uint8_t) (a * 16 + b);
		s += 2;
	}
	return s[0] ? -1 : n;
}

/* ------------------------------------------------------------ interpreter */

static char *session_cfg = NULL;
static int session_count = 0;

static const char *arg_str(const char *tok) {
	/* "~" denotes NULL, "%e" the empty string */
	if (tok == NULL || strcmp(tok, "~") == 0) return NULL;
	if (strcmp(tok, "%e") == 0) return "";
	return tok;
}

static void drain_queue(const char *name, uint8_t *(*rd)(void), int max) {
	fprintf(vout, "\"%s\":[", name);
	int k = 0;
	uint8_t *m;
	while (k < max && (m = rd()) != NULL) {
		if (k++) fputc(',', vout);
		out_hex(m, (size_t) m[0] + 1);
		free(m);
	}
	fputc(']', vout);
}

#define MAXTOK 600
static int tokenize(char *line, char **tok) {
	int n = 0;
	char *save = NULL;
	for (char *t = strtok_r(line, " \t\r\n", &save); t && n < MAXTOK; t = strtok_r(NULL, " \t\r\n", &save)) tok[n++] = t;
	return n;
}

/* executes one command line; returns false on "end" */
bool exec_line(char *line, int lineno, int thr) {
	char *tok[MAXTOK];
	char copy[8192];
	strncpy(copy, line, sizeof copy - 1); copy[sizeof copy - 1] = 0;
	int n = tokenize(copy, tok);
	if (n == 0 || tok[0][0] == '#') return true;
	const char *op = tok[0];
	if (strcmp(op, "end") == 0) return false;

#define HEAD() do { out_lock(); fprintf(vout, "{\"i\":%d,\"t\":%d,\"op\":\"%s\"", lineno, thr, op); } while (0)
#define TAIL() do { fprintf(vout, ",\"gs\":%lu,\"now\":%lu}\n", sched_stamp(), (unsigned long) (vt_now_us() / 1000000)); out_unlock(); } while (0)

	if (strcmp(op, "debug") == 0) {
		bidib_set_lowlevel_debug_mode(atoi(tok[1]) != 0);
		HEAD(); fprintf(vout, ",\"v\":%d", atoi(tok[1])); TAIL();
	} else if (strcmp(op, "logkeep") == 0) {
		log_keep = atoi(tok[1]);
	} else if (strcmp(op, "bus") == 0) {
		bus_config(n - 1, tok + 1);
	} else if (strcmp(op, "start") == 0) {
		/* start <cfgdir|~> <flush_ms> */
		const char *cfg = arg_str(tok[1]);
		unsigned int fl = n > 2 ? (unsigned int) atoi(tok[2]) : 0;
		free(session_cfg); session_cfg = cfg ? strdup(cfg) : NULL;
		bus_session_begin();
		int r = bidib_start_pointer(cb_read, cb_write, cfg, fl);
		session_count++;
		if (bidib_running) rx_wait_idle(400);
		HEAD(); fprintf(vout, ",\"ret\":%d,\"running\":%d", r, bidib_running ? 1 : 0);
		out_thr(); out_wire(); TAIL();
	} else if (strcmp(op, "startnull") == 0) {
		/* start with NULL callbacks: which = r|w|c */
		int r = bidib_start_pointer(strchr(tok[1], 'r') ? NULL : cb_read, strchr(tok[1], 'w') ? NULL : cb_write,
		                            strchr(tok[1], 'c') ? NULL : arg_str(tok[2]), 0);
		HEAD(); fprintf(vout, ",\"ret\":%d,\"running\":%d", r, bidib_running ? 1 : 0); out_wire(); TAIL();
	} else if (strcmp(op, "startserial") == 0) {
		/* startserial <device|~> <cfgdir|~> <flush_ms> : the serial entry point (no device of this name exists here) */
		int r = bidib_start_serial(arg_str(tok[1]), arg_str(tok[2]), n > 3 ? (unsigned int) atoi(tok[3]) : 0);
		HEAD(); fprintf(vout, ",\"ret\":%d,\"running\":%d", r, bidib_running ? 1 : 0);
		out_thr(); out_wire(); TAIL();
	} else if (strcmp(op, "stop") == 0) {
		bidib_stop();
		HEAD(); fprintf(vout, ",\"running\":%d", bidib_running ? 1 : 0);
		out_thr(); out_wire(); TAIL();
	} else if (strcmp(op, "flush") == 0) {
		bidib_flush();
		HEAD(); out_wire(); TAIL();
	} else if (strcmp(op, "tick") == 0) {
		vt_advance_us((uint64_t) atol(tok[1]) * 1000000ULL);
		HEAD(); fprintf(vout, ",\"s\":%ld", atol(tok[1])); out_wire(); TAIL();
	} else if (strcmp(op, "feed") == 0) {
		/* feed <hex> [gaps g1,g2,..]  : raw uplink bytes */
		static uint8_t buf[65536];
		int len = parse_hex(tok[1], buf, sizeof buf);
		if (len < 0) { HEAD(); fputs(",\"err\":\"bad hex\"", vout); TAIL(); return true; }
		if (n > 3 && strcmp(tok[2], "gaps") == 0) {
			int cnt = 1; for (char *p = tok[3]; *p; p++) if (*p == ',') cnt++;
			int *g = malloc(sizeof(int) * (size_t) cnt); int k = 0;
			char *save = NULL;
			for (char *t = strtok_r(tok[3], ",", &save); t; t = strtok_r(NULL, ",", &save)) g[k++] = atoi(t);
			up_set_gaps(g, k);
		}
		up_feed(buf, (size_t) len);
		bool idle = bidib_running ? rx_wait_idle(2000) : false;
		HEAD(); fprintf(vout, ",\"n\":%d,\"idle\":%s", len, idle ? "true" : "false"); out_wire(); TAIL();
	} else if (strcmp(op, "drain") == 0) {
		HEAD(); fputc(',', vout);
		int max = n > 1 ? atoi(tok[1]) : 1000000;
		drain_queue("msg", bidib_read_message, max); fputc(',', vout);
		drain_queue("err", bidib_read_error_message, max); fputc(',', vout);
		drain_queue("int", bidib_read_intern_message, max);
		out_wire(); TAIL();
	} else if (strcmp(op, "readmsg") == 0 || strcmp(op, "readerr") == 0) {
		uint8_t *m = strcmp(op, "readmsg") == 0 ? bidib_read_message() : bidib_read_error_message();
		HEAD(); fputs(",\"m\":", vout);
		if (m) { out_hex(m, (size_t) m[0] + 1); free(m); } else fputs("null", vout);
		TAIL();
	} else if ((strcmp(op, "ll") == 0 || strcmp(op, "hl") == 0 || strcmp(op, "flush") == 0) && !bidib_running) {
		/* the API is only defined while the library runs: a script line that follows a failed start is skipped */
		HEAD(); fputs(",\"skipped\":1", vout); out_wire(); TAIL();
	} else if (strcmp(op, "ll") == 0) {
		/* ll <function> <args...> */
		int rc = ll_call(tok[1], n - 2, tok + 2);
		HEAD(); fprintf(vout, ",\"fn\":\"%s\",\"rc\":%d", tok[1], rc); out_wire(); TAIL();
	} else if (strcmp(op, "hl") == 0) {
		long r = hl_call(tok[1], n - 2, tok + 2);
		HEAD(); fprintf(vout, ",\"fn\":\"%s\",\"ret\":%ld", tok[1], r); out_wire(); TAIL();
	} else if (strcmp(op, "getall") == 0) {
		HEAD(); fputs(",\"st\":", vout); if (bidib_running) proj_all(); else fputs("null", vout); out_wire(); TAIL();
	} else if (strcmp(op, "get") == 0) {
		HEAD(); fprintf(vout, ",\"fn\":\"%s\",\"arg\":", tok[1]); out_str(n > 2 ? arg_str(tok[2]) : NULL);
		fputs(",\"res\":", vout); if (bidib_running) proj_get(tok[1], n - 2, tok + 2); else fputs("null", vout); TAIL();
	} else if (strcmp(op, "bundle") == 0) {
		/* bundle take | print <k> | free <k>   (C17: results kept across later events and bidib_stop) */
		HEAD(); fprintf(vout, ",\"what\":\"%s\",\"res\":", tok[1]); proj_bundle(tok[1], n > 2 ? atoi(tok[2]) : -1); TAIL();
	} else if (strcmp(op, "tables") == 0) {
		HEAD(); fputs(",\"respinfo\":[", vout);
		for (int t = 0; t < 0x80; t++) {
			if (t) fputc(',', vout);
			fprintf(vout, "[%d,%d,%d,%d,%d]", bidib_response_info[t][0], bidib_response_info[t][1],
			        bidib_response_info[t][2], bidib_response_info[t][3], bidib_response_info[t][4]);
		}
		fputs("]", vout); TAIL();
	} else if (strcmp(op, "globals") == 0) {
		HEAD(); fprintf(vout, ",\"running\":%d,\"discard_rx\":%d,\"seq_enabled\":%d,\"debug\":%d,\"logs\":%lu",
		                bidib_running ? 1 : 0, bidib_discard_rx ? 1 : 0, bidib_seq_num_enabled ? 1 : 0,
		                bidib_lowlevel_debug_mode ? 1 : 0, (unsigned long) log_count);
		out_thr(); TAIL();
	} else if (strcmp(op, "note") == 0) {
		HEAD(); fputs(",\"text\":", vout); out_str(n > 1 ? tok[1] : ""); TAIL();
	} else if (strcmp(op, "locks") == 0) {
		/* locks on|off|dump */
		if (strcmp(tok[1], "dump") == 0) { HEAD(); out_locks(); TAIL(); }
		else lock_trace_enable(strcmp(tok[1], "on") == 0);
	} else if (strcmp(op, "leakcheck") == 0) {
		int l = __lsan_do_recoverable_leak_check ? __lsan_do_recoverable_leak_check() : -1;
		HEAD(); fprintf(vout, ",\"leaks\":%d", l); TAIL();
	} else if (strcmp(op, "waitidle") == 0) {
		bool idle = rx_wait_idle(2000);
		HEAD(); fprintf(vout, ",\"idle\":%s", idle ? "true" : "false"); out_wire(); TAIL();
	} else {
		HEAD(); fputs(",\"err\":\"unknown op\"", vout); TAIL();
	}
	return true;
}

/* ------------------------------------------------------------------- main */

static char **script_lines = NULL; static size_t script_n = 0, script_cap = 0;

static void add_line(const char *l) {
	if (script_n == script_cap) { script_cap = script_cap ? script_cap * 2 : 1024; script_lines = realloc(script_lines, script_cap * sizeof(char *)); }
	script_lines[script_n++] = strdup(l);
}

const char *script_line(size_t i) { return i < script_n ? script_lines[i] : NULL; }

static int run_script_child(size_t from, size_t to) {
	upq = malloc(UPQ); wire = malloc(WIREMAX); chunk_len = malloc(sizeof(uint32_t) * CHUNKMAX);
	vt_register_script_thread();
	for (size_t i = from; i < to; i++) {
		if (strncmp(script_lines[i], "threads", 7) == 0) {
			/* concurrent section: lines up to "endthreads" belong to it */
			size_t j = i + 1;
			while (j < to && strncmp(script_lines[j], "endthreads", 10) != 0) j++;
			conc_run(script_lines + i, j - i, (int) (i - from));
			i = j;
			continue;
		}
		if (!exec_line(script_lines[i], (int) (i - from), 0)) break;
	}
	if (bidib_running) bidib_stop();
	fflush(vout_real);
	return 0;
}

int main(int argc, char **argv) {
	/* usage: vdrv <scriptfile|-> [--timeout s] [--nofork]
	 * The script consists of blocks "begin <id>" ... "end"; each block runs in a forked child. */
	const char *path = argc > 1 ? argv[1] : "-";
	int timeout_s = 60; bool nofork = false; const char *errdir = NULL;
	for (int i = 2; i < argc; i++) {
		if (strcmp(argv[i], "--timeout") == 0 && i + 1 < argc) timeout_s = atoi(argv[++i]);
		else if (strcmp(argv[i], "--nofork") == 0) nofork = true;
		else if (strcmp(argv[i], "--errdir") == 0 && i + 1 < argc) errdir = argv[++i];
	}
	FILE *in = strcmp(path, "-") == 0 ? stdin : fopen(path, "r");
	if (!in) { perror(path); return 2; }
	vout_real = stdout;
	setvbuf(vout_real, NULL, _IOFBF, 1 << 16);
	char *line = NULL; size_t cap = 0; ssize_t len;
	char cur_id[256] = ""; size_t begin = 0; bool in_block = false;
	while ((len = getline(&line, &cap, in)) >= 0) {
		if (strncmp(line, "begin", 5) == 0 && (line[5] == ' ' || line[5] == '\n')) {
			sscanf(line + 5, "%255s", cur_id);
			begin = script_n; in_block = true;
			continue;
		}
		if (!in_block) continue;
		add_line(line);
		if (strncmp(line, "end", 3) == 0 && (line[3] == '\n' || line[3] == 0 || line[3] == ' ')) {
			in_block = false;
			fflush(vout_real);
			if (nofork) {
				fprintf(vout_real, "{\"begin\":\"%s\"}\n", cur_id);
				run_script_child(begin, script_n);
				fprintf(vout_real, "{\"end\":\"%s\",\"status\":\"ok\",\"code\":0}\n", cur_id);
				continue;
			}
			fprintf(vout_real, "{\"begin\":\"%s\"}\n", cur_id); fflush(vout_real);
			pid_t pid = fork();
			if (pid == 0) {
				fclose(in);
				if (errdir) {
					char ep[600]; snprintf(ep, sizeof ep, "%s/%s.err", errdir, cur_id);
					if (!freopen(ep, "w", stderr)) { /* keep the inherited stderr */ }
				}
				run_script_child(begin, script_n);
				fflush(vout_real);
				_exit(0);
			}
			int status = 0; bool timed_out = false;
			struct timespec t0; clock_gettime(CLOCK_MONOTONIC, &t0);
			for (;;) {
				pid_t r = waitpid(pid, &status, WNOHANG);
				if (r == pid) break;
				struct timespec t1; clock_gettime(CLOCK_MONOTONIC, &t1);
				if (t1.tv_sec - t0.tv_sec >= timeout_s) { kill(pid, SIGKILL); waitpid(pid, &status, 0); timed_out = true; break; }
				real_sleep_us(300);
			}
			const char *st = "ok"; int code = 0;
			if (timed_out) st = "timeout";
			else if (WIFSIGNALED(status)) { st = "signal"; code = WTERMSIG(status); }
			else if (WIFEXITED(status) && WEXITSTATUS(status) != 0) { st = "exit"; code = WEXITSTATUS(status); }
			fprintf(vout_real, "{\"end\":\"%s\",\"status\":\"%s\",\"code\":%d}\n", cur_id, st, code);
			fflush(vout_real);
			/* forget the block's lines */
			for (size_t i = begin; i < script_n; i++) free(script_lines[i]);
			script_n = begin;
		}
	}
	free(line);
	return 0;
}
