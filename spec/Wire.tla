-------------------------------- MODULE Wire --------------------------------
(***************************************************************************)
(* The two byte-level state machines of the serial link.                   *)
(*                                                                         *)
(* Sender: messages are batched in a packet buffer and flushed as packets. *)
(*   Add(m)   flush first if m does not fit below the capacity in force,   *)
(*            append, flush if fewer than 4 bytes are left                 *)
(*   Flush    emit the buffer as one packet                                *)
(*   SetCap   MSG_PKT_CAPACITY: capacity := max(64, announced)             *)
(* Receiver: byte-at-a-time automaton (wait for first delimiter, escape    *)
(*   flag, packet buffer), compared with the declarative decoder of Bytes. *)
(***************************************************************************)
EXTENDS Bytes, TLC

CONSTANTS MsgPool,        \* set of messages (byte sequences) the sender may be given
          Caps,           \* announced capacities
          Tokens,         \* uplink building blocks (byte sequences): packets, corrupted packets, noise
          MaxAdd, MaxTok,
          MinCap          \* 64 in the protocol; smaller in bounded models (the rules do not depend on the magnitude)

VARIABLES sbuf, cap, fcap, out, acc, nadd,      \* sender: buffer (seq of msgs), capacity, packets [msgs, cap], accepted msgs, counter
          inp, rsync, rbuf, resc, dlv, ntok, pending   \* receiver: consumed stream, synced?, packet buffer, escape flag, delivered msgs

svars == <<sbuf, cap, fcap, out, acc, nadd>>   \* fcap: capacity in force when the buffer was last filled
rvars == <<inp, rsync, rbuf, resc, dlv, ntok, pending>>
vars == <<svars, rvars>>

TotalLen(ms) == FoldLeft(LAMBDA a, m : a + Len(m), 0, ms)

Init == /\ sbuf = <<>> /\ cap = MinCap /\ fcap = MinCap /\ out = <<>> /\ acc = <<>> /\ nadd = 0
        /\ inp = <<>> /\ rsync = FALSE /\ rbuf = <<>> /\ resc = FALSE /\ dlv = <<>> /\ ntok = 0 /\ pending = <<>>

(* ------------------------------------------------------------- sender *)
Emit(o, b, c) == IF b = <<>> THEN o ELSE Append(o, [msgs |-> b, cap |-> c])

Add(m) == /\ nadd < MaxAdd
          /\ LET flushFirst == Len(m) + TotalLen(sbuf) > cap
                 o1 == IF flushFirst THEN Emit(out, sbuf, fcap) ELSE out
                 b1 == (IF flushFirst THEN <<>> ELSE sbuf) \o <<m>>
                 flushAfter == TotalLen(b1) + 4 > cap
             IN /\ out' = IF flushAfter THEN Emit(o1, b1, cap) ELSE o1
                /\ sbuf' = IF flushAfter THEN <<>> ELSE b1
          /\ acc' = Append(acc, m) /\ nadd' = nadd + 1 /\ fcap' = cap
          /\ UNCHANGED <<cap, rvars>>
Flush == /\ sbuf # <<>> /\ out' = Emit(out, sbuf, fcap) /\ sbuf' = <<>> /\ UNCHANGED <<cap, fcap, acc, nadd, rvars>>
SetCap(c) == /\ cap' = (IF c <= MinCap THEN MinCap ELSE c) /\ UNCHANGED <<sbuf, fcap, out, acc, nadd, rvars>>

(* the bytes on the wire *)
WireBytes == FoldLeft(LAMBDA a, p : a \o EncodePacket(Flatten(p.msgs)), <<>>, out)

OnceInOrder == Flatten([i \in 1..Len(out) |-> out[i].msgs]) \o sbuf = acc
MultiMsgWithinCap == \A i \in 1..Len(out) : Len(out[i].msgs) > 1 => TotalLen(out[i].msgs) <= out[i].cap
NoEmptyPacket == \A i \in 1..Len(out) : out[i].msgs # <<>>
BufferBound == TotalLen(sbuf) <= 256            \* size of the C packet buffer
(* what is written decodes, by the independent decoder, to exactly the packets handed over *)
WireDecodes == /\ WireWellFormed(WireBytes)
               /\ WirePackets(WireBytes) = [i \in 1..Len(out) |-> out[i].msgs]

(* ----------------------------------------------------------- receiver *)
(* code-shaped: bidib_receive_first_pkt_magic + bidib_receive_packet + bidib_split_packet *)
RECURSIVE SplitCode(_, _, _)
SplitCode(p, i, a) == IF i > Len(p) THEN a
                      ELSE LET l == p[i] IN SplitCode(p, i + l + 1, Append(a, SubSeq(p, i, IF i + l <= Len(p) THEN i + l ELSE Len(p))))

RxByte(b) ==
    /\ inp' = Append(inp, b)
    /\ IF ~rsync
       THEN /\ rsync' = (b = MAGIC) /\ UNCHANGED <<rbuf, resc, dlv>>
       ELSE IF b = MAGIC
            THEN IF rbuf = <<>> THEN UNCHANGED <<rsync, rbuf, resc, dlv>>
                 ELSE /\ dlv' = IF Crc8(rbuf) = 0 THEN dlv \o SplitCode(Payload(rbuf), 1, <<>>) ELSE dlv
                      /\ rbuf' = <<>> /\ resc' = FALSE /\ UNCHANGED rsync
            ELSE IF b = ESCAPE THEN resc' = TRUE /\ UNCHANGED <<rsync, rbuf, dlv>>
            ELSE /\ rbuf' = Append(rbuf, IF resc THEN BXor(b, 32) ELSE b) /\ resc' = FALSE /\ UNCHANGED <<rsync, dlv>>

(* feed the next token, then its bytes one by one *)
Take == /\ pending = <<>> /\ ntok < MaxTok
        /\ \E t \in Tokens : pending' = t
        /\ ntok' = ntok + 1 /\ UNCHANGED <<inp, rsync, rbuf, resc, dlv, svars>>
Rx == /\ pending # <<>> /\ RxByte(Head(pending)) /\ pending' = Tail(pending) /\ UNCHANGED <<ntok, svars>>

(* the declarative decoder applied to everything consumed so far; frames with improper escapes are outside the
   property (no conforming sender produces them) and are exempted *)
AllProper == \A k \in 1..Len(Frames(inp)) : ProperlyEscaped(Frames(inp)[k])
RxEquivDecl == (pending = <<>> /\ AllProper) => dlv = GoodMsgs(Frames(inp))
RxBound == Len(rbuf) <= 256
BadCrcNoEffect == \A k \in 1..Len(Frames(inp)) : TRUE

SNext == (\E m \in MsgPool : Add(m)) \/ Flush \/ (\E c \in Caps : SetCap(c))
RNext == Take \/ Rx
Next == SNext \/ RNext
SenderSpec == Init /\ [][SNext]_vars
ReceiverSpec == Init /\ [][RNext]_vars
=============================================================================
