"""vcheck --replay <file>: re-examine one recorded violation on the CURRENT tree.

A replay file (written by check.Ctx.violation) holds what failed: the driver script, and - for executions refused by a
trace specification - the recorded events with the module / configuration that refused them.
  1. the recorded events are validated again by TLC (the specification may have changed since): prints whether they are
     still refused, where, and the specification state before the refused event;
  2. the script is executed again on objects rebuilt from /repo's working tree (configuration directories named by the
     script are re-created from the replay file): prints how the process ended (crash / sanitizer report / hang
     reproduce here).
Exit 1 when the recorded events are still refused or the process still ends abnormally, 0 otherwise, 2 on infrastructure
problems."""
import json, os, re, sys, tempfile, shutil
from . import build, drv, check, tlc, cfg as cfgmod

def _recreate_dirs(script_text, rp):
    made = []
    files = rp.get("files"); config = rp.get("config") or rp.get("cfg")
    for ln in script_text.splitlines():
        t = ln.split()
        if len(t) >= 2 and t[0] == "start" and t[1] not in ("~",) and t[1].startswith("/"):
            d = t[1]
            if os.path.isdir(d): continue
            try:
                if isinstance(files, dict):
                    os.makedirs(d, exist_ok=True)
                    from . import gen_config as gc
                    for name, fn in gc.FILES.items():
                        if files.get(name) is not None: open(os.path.join(d, fn), "wb").write(files[name].encode("latin-1"))
                elif isinstance(config, dict) and "boards" in config:
                    cfgmod.write(config, d)
                else: continue
                made.append(d)
            except OSError as ex:
                print("replay: cannot re-create %s: %s" % (d, ex))
    return made

def _validate(module, cfgname, evs, pid):
    xf = None
    if os.path.exists(os.path.join(tlc.SPEC, cfgname)):
        txt, _, _ = check.quirk_cfg(cfgname, pid); xf = {"_rp.cfg": txt}; cfgname = "_rp.cfg"     # quirks of OTHER properties' known findings on, as in the check
    if module == "Trace_Lin.tla": acc, consumed, r = check.validate_lin(module, cfgname, evs, timeout=1800, extra_files=xf)
    else: acc, consumed, r = check.validate(module, cfgname, evs, timeout=1800, extra_files=xf)
    tlc.cleanup(r)
    return acc, consumed, r

def _regen(rp, rr):
    """events of the fresh execution, rebuilt the way the check builds them; None if this replay file cannot do that"""
    g = rp.get("regen")
    if not g: return None
    class Obj: pass
    if g.get("kind") == "track_session":
        from . import gen_track
        ev, probs = gen_track.to_events(gen_track.SessionView(g), rr)
        if probs: print("  fresh execution could not be turned into events: %s" % "; ".join(probs)); return None
        return ev
    if g.get("kind") in ("script_templates", "uplink_templates"):
        o = Obj(); o.events = g["templates"]; o.sid = rr.sid
        if g["kind"] == "script_templates": return drv.to_trace(o, rr)
        sys.path.insert(0, os.path.join(os.path.dirname(os.path.abspath(__file__)), ".."))
        from checks import uplink
        return uplink.to_events(o, rr)
    return None

def replay(path):
    try: rp = json.load(open(path))
    except (OSError, ValueError) as ex:
        print("INFRA: cannot read replay file %s: %s" % (path, ex)); return 2
    pid = rp.get("property", "?"); bad = False
    print("replay of %s (%s): %s" % (path, pid, str(rp.get("what", rp.get("kind")))[:300]))
    # ---- 1. recorded events against the current specification
    if rp.get("events") and rp.get("module"):
        module = rp["module"]; cfgname = rp.get("cfg") if isinstance(rp.get("cfg"), str) else module.replace(".tla", ".cfg")
        evs = rp["events"]
        try:
            acc, consumed, r = _validate(module, cfgname, evs, pid)
            if r.error and not r.violation: print("INFRA: TLC: " + r.error[:600]); return 2
            if acc: print("  specification %s now ACCEPTS the recorded events (%d)" % (module, len(evs)))
            else:
                bad = "regen" not in rp          # with a regenerable replay the fresh execution decides (below)
                e = evs[consumed] if consumed < len(evs) else {}
                print("  specification %s still REFUSES event %d: %s" % (module, consumed, json.dumps({k: v for k, v in e.items() if k not in ("st", "cfg", "lists")})[:600]))
                if module != "Trace_Lin.tla":
                    try: print("  specification state before it:\n" + check.explain(module, rp.get("cfg") if isinstance(rp.get("cfg"), str) else module.replace(".tla", ".cfg"), evs, consumed)[:3000])
                    except Exception as ex: print("  (no state: %r)" % ex)
        except Exception as ex:
            print("INFRA: validation failed: %r" % ex); return 2
    # ---- 2. the script on the current tree
    script = rp.get("script")
    if script:
        try: exe = build.build("asan")
        except build.BuildError as ex:
            print("INFRA: build failed: %s" % ex); return 2
        made = _recreate_dirs(script, rp)
        m = re.match(r"begin (\S+)", script); sid = m.group(1) if m else "replay"
        class S:
            pass
        s = S(); s.sid = sid; s.text = lambda: script if script.startswith("begin ") else "begin %s\n%s\nend\n" % (sid, script)
        try:
            res = drv.run(exe, [s], timeout=120)
            rr = res.get(sid)
            if rr is None: print("  script produced no result"); bad = True
            else:
                print("  script executed on the current tree: process ended with %s (code %s), %d output lines" % (rr.status, rr.code, len(rr.out)))
                lk = [o[0] for o in rr.out.values() if o and o[0].get("op") == "leakcheck"]
                if lk and lk[0].get("leaks") not in (0, None): print("  LeakSanitizer: leaks reported"); bad = True
                if rr.status != "ok":
                    bad = True
                    sm = re.search(r"SUMMARY: .*", rr.stderr or "")
                    print("  " + (sm.group(0)[:300] if sm else (rr.stderr or "")[-400:].replace("\n", " | ")))
                elif rp.get("module"):
                    fresh = _regen(rp, rr)
                    if fresh is None and "regen" in rp: bad = True
                    elif fresh is not None:
                        module = rp["module"]; cfgname = rp.get("cfg") if isinstance(rp.get("cfg"), str) else module.replace(".tla", ".cfg")
                        acc, consumed, r = _validate(module, cfgname, fresh, pid)
                        if r.error and not r.violation: print("INFRA: TLC: " + r.error[:600]); return 2
                        if acc: print("  the execution on the current tree is ACCEPTED by %s (%d events)" % (module, len(fresh)))
                        else:
                            bad = True; e = fresh[consumed] if consumed < len(fresh) else {}
                            print("  the execution on the current tree is REFUSED at event %d: %s" % (consumed, json.dumps({k: v for k, v in e.items() if k not in ("st", "cfg", "lists")})[:600]))
        finally:
            for d in made: shutil.rmtree(d, ignore_errors=True)
    if not rp.get("script") and not rp.get("events"):
        print("  nothing replayable in this file (kind %s)" % rp.get("kind")); return 2
    print("replay result: %s" % ("violation reproduces" if bad else "does not reproduce on the current tree / specification"))
    return 1 if bad else 0
