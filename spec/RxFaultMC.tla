------------------------------ MODULE RxFaultMC ------------------------------
(***************************************************************************)
(* Fault classes for the receiver (C12), enumerated from the specification *)
(* of the framing (Bytes) and of what every message type needs in order to *)
(* be interpreted (Track!MinData, the dispatcher's fixed-offset fields).   *)
(* Every class instance is a byte stream for the read callback; the        *)
(* requirement for all of them is the same (Trace_Fault): the process      *)
(* survives, nothing outside a buffer is touched (sanitizer build) and a   *)
(* well-formed probe packet that follows is processed.                     *)
(* TLC prints one CASE line per instance; the check executes each in debug *)
(* and in normal mode, from a configured node and from an unknown one.     *)
(***************************************************************************)
EXTENDS Track, Bytes, TLC, Json

Fill(n, b) == [i \in 1..n |-> b]
Ramp(n) == [i \in 1..n |-> ((i * 7) % 251) + 1]
M(addr, seq, ty, data) == MsgBytes(addr, seq, ty, data)
Pk(payload) == EncodePacket(payload)                    \* CRC-valid packet around arbitrary payload bytes
Case(cls, what, bytes) == [cls |-> cls, what |-> what, b |-> bytes]

Nodes == {<<>>, <<1>>, <<9>>}            \* interface (configured), configured board, unknown node

(* 1. framing level: oversized / undelimited / escape storms *)
Framing ==
    {Case("big", "valid packet, payload " \o ToString(n), Pk(M(<<>>, 0, 130, Fill(3, 1)) \o Fill(n, 0))) : n \in {240, 249, 250, 251, 252, 256, 257, 300, 700}}
    \cup {Case("big", "one message claiming 255 bytes inside " \o ToString(n), Pk(<<255>> \o Ramp(n))) : n \in {254, 255, 256, 300}}
    \cup {Case("noise", "no delimiter, " \o ToString(n) \o " bytes", Ramp(n)) : n \in {1, 255, 256, 257, 300, 1000}}
    \cup {Case("noise", "delimiter then " \o ToString(n) \o " bytes without end", <<254>> \o Ramp(n)) : n \in {255, 256, 257, 300, 1000}}
    \cup {Case("esc", "escape storms", s) : s \in {<<254, 253, 254>>, <<254, 253, 253, 253, 254>>, <<254, 253, 222, 253, 221, 254>>, <<254>> \o Fill(300, 253) \o <<254>>,
                                                   <<254, 1, 253, 254>>, <<253, 254, 254, 253>>}}
    \cup {Case("crc", "bad crc around malformed payload", <<254, 255, 1, 2, 3, 254>>), Case("crc", "two-byte frames", <<254, 0, 0, 254, 5, 251, 254>>)}

(* 2. CRC-valid packets whose length bytes are inconsistent *)
Good == M(<<1>>, 0, 130, <<7>>)                          \* 06 01 00 00 82 07
LenFaults ==
    {Case("len", "length byte " \o ToString(L) \o " on a 7-byte message", Pk(<<L>> \o Tail(Good))) : L \in {0, 1, 2, 3, 4, 5, 7, 8, 100, 255}}
    \cup {Case("len", "second message truncated, length byte " \o ToString(L), Pk(Good \o <<L>> \o <<1, 0, 0>>)) : L \in {3, 4, 9, 255}}
    \cup {Case("len", "empty payload / single byte", Pk(b)) : b \in {<<>>, <<0>>, <<3>>, <<255>>}}

(* 3. address stacks *)
AddrFaults ==
    {Case("addr", "depth " \o ToString(Len(a)), Pk(<<Len(a) + 4>> \o a \o <<0, 0, 130, 7>>)) : a \in {<<1, 2, 3, 4>>, <<1, 2, 3, 4, 5>>, <<1, 2, 3, 4, 5, 6, 7, 8>>}}
    \cup {Case("addr", "no terminator at all, " \o ToString(n) \o " bytes", Pk(<<n>> \o Fill(n, 5))) : n \in {3, 4, 5, 8, 60}}
    \cup {Case("addr", "terminator is the last byte", Pk(<<4, 1, 2, 3, 0>>)), Case("addr", "terminator, nothing after", Pk(<<2, 1, 0>>)),
          Case("addr", "terminator + sequence number only", Pk(<<3, 1, 0, 5>>))}

(* 4. every type code with less data than its fields need (0 bytes and one byte short) *)
Need(ty) == MinData(ty, <<200, 200, 200, 200, 200, 200, 200, 200, 200, 200>>)     \* fixed part; variable parts below
Short ==
    UNION {{Case("short", "type " \o ToString(ty) \o " with " \o ToString(k) \o " data bytes from " \o ToString(n), Pk(M(n, 0, ty, Fill(k, 1)))) :
              k \in {0} \cup (IF Need(ty) > 1 /\ Need(ty) < 50 THEN {Need(ty) - 1} ELSE {})} : ty \in 0..255, n \in Nodes}

(* 5. variable-length types whose own length fields lie *)
VarFaults ==
    {Case("var", "BM_MULTIPLE size " \o ToString(sz) \o " with " \o ToString(k) \o " bitmap bytes", Pk(M(n, 0, MSG_BM_MULTIPLE, <<0, sz>> \o Fill(k, 255)))) :
        sz \in {8, 16, 128, 248, 255}, k \in {0, 1}, n \in {<<1>>, <<9>>}}
    \cup {Case("var", "VENDOR name length " \o ToString(nl), Pk(M(<<1>>, 0, MSG_VENDOR, <<nl, 51, 48, vl, 51>>))) : nl \in {0, 2, 3, 4, 100, 255}, vl \in {0, 1, 5, 255}}
    \cup {Case("var", "BM_ADDRESS odd / long", Pk(M(<<1>>, 0, MSG_BM_ADDRESS, d))) : d \in {<<0, 35>>, <<0, 35, 1, 2>>, <<0>> \o Fill(40, 3), <<>>}}
    \cup {Case("var", "BOOST_DIAGNOSTIC odd", Pk(M(<<>>, 0, MSG_BOOST_DIAGNOSTIC, d))) : d \in {<<0>>, <<0, 1, 2>>, <<1, 5, 0>>, <<>>}}
    \cup {Case("var", "NODETAB / FEATURE short during normal operation", Pk(M(<<>>, 0, ty, <<1>>))) : ty \in {MSG_NODETAB, MSG_NODETAB_COUNT, MSG_FEATURE, MSG_SYS_MAGIC, MSG_NODE_NEW, MSG_NODE_LOST}}

(* 6. out-of-range field values of well-formed messages *)
FieldFaults ==
    {Case("field", "SYS_ERROR type " \o ToString(e) \o " detail " \o ToString(x), Pk(M(n, 0, MSG_SYS_ERROR, <<e, x, 0>>))) : e \in {0, 1, 4, 16, 47, 48, 49, 63, 128, 255}, x \in {0, 6, 7, 255}, n \in {<<>>, <<9>>}}
    \cup {Case("field", "BOOST_STAT " \o ToString(v), Pk(M(n, 0, MSG_BOOST_STAT, <<v>>))) : v \in {0, 6, 7, 127, 128, 131, 132, 133, 200, 255}, n \in {<<>>, <<9>>}}
    \cup {Case("field", "CS_STATE " \o ToString(v), Pk(M(n, 0, MSG_CS_STATE, <<v>>))) : v \in {0, 4, 5, 8, 9, 13, 14, 128, 255}, n \in {<<>>, <<1>>, <<9>>}}
    \cup {Case("field", "ACCESSORY_STATE unknown aspect, error flag", Pk(M(<<1>>, 0, ty, <<num, 77, 0, 128, 255>>))) : ty \in {MSG_ACCESSORY_STATE, MSG_ACCESSORY_NOTIFY}, num \in {2, 16, 200}}
    \cup {Case("field", "CS_DRIVE_MANUAL active " \o ToString(a), Pk(M(<<>>, 0, MSG_CS_DRIVE_MANUAL, <<35, 1, 9, a, 255, 255, 255, 255, 255>>))) : a \in {0, 63, 64, 255}}
    \cup {Case("field", "STALL value " \o ToString(v), Pk(M(n, 0, MSG_STALL, <<v>>) \o M(n, 0, MSG_STALL, <<0>>))) : v \in {1, 2, 255}, n \in {<<>>, <<1, 2, 3>>}}
    \cup {Case("field", "PKT_CAPACITY " \o ToString(v), Pk(M(<<>>, 0, MSG_PKT_CAPACITY, <<v>>))) : v \in {0, 1, 63, 64, 65, 255}}
    \cup {Case("field", "sequence numbers", Pk(M(<<1>>, s, MSG_SYS_PONG, <<1>>) \o M(<<1>>, s, MSG_SYS_PONG, <<2>>))) : s \in {1, 2, 254, 255}}

All == Framing \cup LenFaults \cup AddrFaults \cup Short \cup VarFaults \cup FieldFaults
ASSUME \A c \in All : PrintT(<<"CASE", ToJson(c)>>)
ASSUME PrintT(<<"COUNT", Cardinality(All)>>)
=============================================================================
