---------------------------- MODULE NodeFlowSim ----------------------------
(* Behaviour generator: NodeFlowMC with a history variable; run with -simulate, every behaviour that reaches
   depth SimDepth is printed once as JSON (event list) and replayed against the real library. *)
EXTENDS NodeFlowMC, Json

CONSTANT SimDepth
VARIABLE hist
simvars == <<nodes, now, seqOn, ghost, cnt, hist>>

SimInit == MCInit /\ hist = <<>>
SimNext ==
    \/ \E n \in Addrs, ty \in Types : MCSend(n, ty) /\ hist' = Append(hist, [e |-> "send", n |-> n, ty |-> ty, v |-> 0])
    \/ \E n \in Addrs, a \in AnsTypes : MCUp(n, a) /\ hist' = Append(hist, [e |-> "up", n |-> n, ty |-> a, v |-> 0])
    \/ \E n \in Addrs, v \in {0, 1} : MCStall(n, v) /\ hist' = Append(hist, [e |-> "stall", n |-> n, ty |-> 142, v |-> v])
    \/ MCTick /\ hist' = Append(hist, [e |-> "tick", n |-> <<>>, ty |-> 0, v |-> 2])
SimSpec == SimInit /\ [][SimNext]_simvars

Emit == Len(hist) < SimDepth \/ PrintT(<<"HIST", ToJson(hist)>>)
=============================================================================
