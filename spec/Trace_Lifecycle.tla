--------------------------- MODULE Trace_Lifecycle ---------------------------
(***************************************************************************)
(* Trace validation of session sequences (C16): return values, running     *)
(* flag, thread creation / joins (from the wrapped pthread_create / join),  *)
(* and the globals a session works with, against Lifecycle.                *)
(* Events: proc (new process) / start cfg debug flush works ret running thr seq discard / stop running thr / cap c *)
(***************************************************************************)
EXTENDS Lifecycle, Json, IOUtils, TLC

VARIABLE l
tlv == <<running, handles, threads, badjoins, glob, sess, l>>
Tr == ndJsonDeserialize(IOEnv.TRACE)
Ev == Tr[l]
IsEv(k) == l <= Len(Tr) /\ Tr[l].e = k /\ l' = l + 1

Count(th, v) == Cardinality({i \in DOMAIN th : th[i] = v})
(* thr = [created, joined, stale, live] as counted by the pthread wrappers since process start *)
ThrOk(o) == /\ o.created = Len(threads') /\ o.joined = Count(threads', "joined") /\ o.live = Count(threads', "live")
            /\ o.stale = badjoins'

TProc == IsEv("proc") /\ running' = FALSE /\ handles' = [rx |-> 0, af |-> 0, hb |-> 0] /\ threads' = << >> /\ badjoins' = 0 /\ glob' = Glob0 /\ sess' = 0
TStart == /\ IsEv("start")
          /\ Start(Ev.cfg, Ev.debug, Ev.flush, Ev.works, Ev.ret)
          /\ Ev.running = running'
          /\ ThrOk(Ev.thr)
          /\ running' => (Ev.seq = glob'.seqOn /\ Ev.discard = glob'.discard)
TStartSerial == /\ IsEv("startserial")
                /\ StartSerial(Ev.dev, Ev.cfg, Ev.ret)
                /\ Ev.running = running'
                /\ ThrOk(Ev.thr)
TStop == /\ IsEv("stop")
         /\ Stop
         /\ Ev.running = running'
         /\ ThrOk(Ev.thr)
TCap == IsEv("cap") /\ Capacity(Ev.c)
TNext == TProc \/ TStart \/ TStartSerial \/ TStop \/ TCap
TSpec == LInit /\ l = 1 /\ [][TNext]_tlv
TraceAccepted == TLCGet("stats").diameter - 1 = Len(Tr)
NotAccepted == l <= Len(Tr)
=============================================================================
