/* proj.c - projection of the library's public query API into JSON (the abstraction function of DESIGN.md section 4).
 *
 * Only public getters are used.  Every field of every result struct is printed; booleans are printed as the raw
 * byte they hold (so a field that was never written shows the allocator's fill pattern instead of 0/1).
 * Every result is passed to its documented free function exactly once.
 */
#define _GNU_SOURCE
#include <string.h>
#include <stdlib.h>
#include "vdrv.h"

static unsigned B(const bool *p) { unsigned char c; memcpy(&c, p, 1); return c; }
#define BV(x) B(&(x))

static void p_sid(const char *s) { if (s == NULL) fputs("\"<null>\"", vout); else out_str(s); }

static void p_board_acc(const t_bidib_board_accessory_state_data *d) {
	fputs("\"sid\":", vout); p_sid(d->state_id);
	fprintf(vout, ",\"val\":%u,\"exec\":%d,\"wait\":%u", d->state_value, (int) d->execution_state, d->wait_details);
}
static void p_dcc_acc(const t_bidib_dcc_accessory_state_data *d) {
	fputs("\"sid\":", vout); p_sid(d->state_id);
	fprintf(vout, ",\"val\":%u,\"coil\":%u,\"oct\":%u,\"ack\":%d,\"tu\":%d,\"st\":%u", d->state_value, BV(d->coil_on),
	        BV(d->output_controls_timing), (int) d->ack, (int) d->time_unit, d->switch_time);
}
static void p_periph(const t_bidib_peripheral_state_data *d) {
	fputs("\"sid\":", vout); p_sid(d->state_id);
	fprintf(vout, ",\"val\":%u,\"tu\":%d,\"wait\":%u", d->state_value, (int) d->time_unit, d->wait);
}
static void p_pc(const t_bidib_power_consumption *p) {
	fprintf(vout, "\"pk\":%u,\"po\":%u,\"pc\":%u", BV(p->known), BV(p->overcurrent), p->current);
}
static void p_segment(const t_bidib_segment_state_data *d) {
	fprintf(vout, "\"occ\":%u,\"cv\":%u,\"fr\":%u,\"ns\":%u,", BV(d->occupied), BV(d->confidence.conf_void),
	        BV(d->confidence.freeze), BV(d->confidence.nosignal));
	p_pc(&d->power_consumption);
	fputs(",\"addrs\":[", vout);
	for (size_t i = 0; i < d->dcc_address_cnt; i++)
		fprintf(vout, "%s[%u,%u,%u]", i ? "," : "", d->dcc_addresses[i].addrl, d->dcc_addresses[i].addrh, d->dcc_addresses[i].type);
	fputc(']', vout);
}
static void p_reverser(const t_bidib_reverser_state_data *d) {
	fputs("\"sid\":", vout); p_sid(d->state_id);
	fprintf(vout, ",\"val\":%d", (int) d->state_value);
}
static void p_train(const t_bidib_train_state_data *d) {
	fprintf(vout, "\"on\":%u,\"ori\":%d,\"spd\":%d,\"fwd\":%u,\"ack\":%d,\"kmh\":%d,\"per\":[", BV(d->on_track), (int) d->orientation,
	        d->set_speed_step, BV(d->set_is_forwards), (int) d->ack, d->detected_kmh_speed);
	for (size_t i = 0; i < d->peripheral_cnt; i++) {
		fputs(i ? ",{\"id\":" : "{\"id\":", vout); p_sid(d->peripherals[i].id);
		fprintf(vout, ",\"st\":%u}", d->peripherals[i].state);
	}
	const t_bidib_train_decoder_state *s = &d->decoder_state;
	fprintf(vout, "],\"sqk\":%u,\"sq\":%u,\"tk\":%u,\"t\":%d,\"ek\":%u,\"en\":%u,\"c2k\":%u,\"c2\":%u,\"c3k\":%u,\"c3\":%u",
	        BV(s->signal_quality_known), s->signal_quality, BV(s->temp_known), (int) s->temp_celsius,
	        BV(s->energy_storage_known), s->energy_storage, BV(s->container2_storage_known), s->container2_storage,
	        BV(s->container3_storage_known), s->container3_storage);
}
static void p_booster(const t_bidib_booster_state_data *d) {
	fprintf(vout, "\"ps\":%d,\"pss\":%d,", (int) d->power_state, (int) d->power_state_simple);
	p_pc(&d->power_consumption);
	fprintf(vout, ",\"vk\":%u,\"v\":%u,\"tk\":%u,\"t\":%d", BV(d->voltage_known), d->voltage, BV(d->temp_known), (int) d->temp_celsius);
}

static void p_idlist(const char *name, t_bidib_id_list_query q) {
	fprintf(vout, "\"%s\":[", name);
	for (size_t i = 0; i < q.length; i++) { if (i) fputc(',', vout); p_sid(q.ids ? q.ids[i] : NULL); }
	fputc(']', vout);
	bidib_free_id_list_query(q);
}

static void p_idlist_keep(const char *name, t_bidib_id_list_query q) {
	fprintf(vout, "\"%s\":[", name);
	for (size_t i = 0; i < q.length; i++) { if (i) fputc(',', vout); p_sid(q.ids ? q.ids[i] : NULL); }
	fputc(']', vout);
}

#define OPEN(name) fprintf(vout, "\"%s\":[", name)
#define SEP(i) if (i) fputc(',', vout)

/* the whole-track snapshot */
static void snapshot(t_bidib_track_state *s) {
	OPEN("pb"); for (size_t i = 0; i < s->points_board_count; i++) { SEP(i); fputs("{\"id\":", vout); p_sid(s->points_board[i].id); fputc(',', vout); p_board_acc(&s->points_board[i].data); fputc('}', vout); } fputs("],", vout);
	OPEN("sb"); for (size_t i = 0; i < s->signals_board_count; i++) { SEP(i); fputs("{\"id\":", vout); p_sid(s->signals_board[i].id); fputc(',', vout); p_board_acc(&s->signals_board[i].data); fputc('}', vout); } fputs("],", vout);
	OPEN("pd"); for (size_t i = 0; i < s->points_dcc_count; i++) { SEP(i); fputs("{\"id\":", vout); p_sid(s->points_dcc[i].id); fputc(',', vout); p_dcc_acc(&s->points_dcc[i].data); fputc('}', vout); } fputs("],", vout);
	OPEN("sd"); for (size_t i = 0; i < s->signals_dcc_count; i++) { SEP(i); fputs("{\"id\":", vout); p_sid(s->signals_dcc[i].id); fputc(',', vout); p_dcc_acc(&s->signals_dcc[i].data); fputc('}', vout); } fputs("],", vout);
	OPEN("per"); for (size_t i = 0; i < s->peripherals_count; i++) { SEP(i); fputs("{\"id\":", vout); p_sid(s->peripherals[i].id); fputc(',', vout); p_periph(&s->peripherals[i].data); fputc('}', vout); } fputs("],", vout);
	OPEN("seg"); for (size_t i = 0; i < s->segments_count; i++) { SEP(i); fputs("{\"id\":", vout); p_sid(s->segments[i].id); fputc(',', vout); p_segment(&s->segments[i].data); fputc('}', vout); } fputs("],", vout);
	OPEN("rev"); for (size_t i = 0; i < s->reversers_count; i++) { SEP(i); fputs("{\"id\":", vout); p_sid(s->reversers[i].id); fputc(',', vout); p_reverser(&s->reversers[i].data); fputc('}', vout); } fputs("],", vout);
	OPEN("trn"); for (size_t i = 0; i < s->trains_count; i++) { SEP(i); fputs("{\"id\":", vout); p_sid(s->trains[i].id); fputc(',', vout); p_train(&s->trains[i].data); fputc('}', vout); } fputs("],", vout);
	OPEN("bst"); for (size_t i = 0; i < s->booster_count; i++) { SEP(i); fputs("{\"id\":", vout); p_sid(s->booster[i].id); fputc(',', vout); p_booster(&s->booster[i].data); fputc('}', vout); } fputs("],", vout);
	OPEN("to"); for (size_t i = 0; i < s->track_outputs_count; i++) { SEP(i); fputs("{\"id\":", vout); p_sid(s->track_outputs[i].id); fprintf(vout, ",\"cs\":%d}", (int) s->track_outputs[i].cs_state); } fputs("]", vout);
}

/* boards: id list + connectivity + address per board */
static void boards(void) {
	t_bidib_id_list_query q = bidib_get_boards();
	OPEN("boards");
	for (size_t i = 0; i < q.length; i++) {
		SEP(i);
		fputs("{\"id\":", vout); p_sid(q.ids[i]);
		t_bidib_node_address_query a = bidib_get_nodeaddr(q.ids[i]);
		fprintf(vout, ",\"conn\":%u,\"kc\":%u", (unsigned) bidib_get_board_connected(q.ids[i]), BV(a.known_and_connected));
		if (a.known_and_connected) fprintf(vout, ",\"addr\":[%u,%u,%u]", a.address.top, a.address.sub, a.address.subsub);
		else fputs(",\"addr\":[]", vout);
		t_bidib_unique_id_query u = bidib_get_uniqueid(q.ids[i]);
		if (u.known) fprintf(vout, ",\"uid\":[%u,%u,%u,%u,%u,%u,%u]", u.unique_id.class_id, u.unique_id.class_id_ext, u.unique_id.vendor_id,
		                     u.unique_id.product_id1, u.unique_id.product_id2, u.unique_id.product_id3, u.unique_id.product_id4);
		else fputs(",\"uid\":[]", vout);
		fputc('}', vout);
	}
	fputs("]", vout);
	bidib_free_id_list_query(q);
}

void proj_all(void) {
	t_bidib_track_state s = bidib_get_state();
	fputc('{', vout);
	snapshot(&s);
	fputc(',', vout);
	boards();
	/* derived train getters (C08): position / on-track / speed per train of the snapshot */
	fputs(",\"tpos\":[", vout);
	for (size_t i = 0; i < s.trains_count; i++) {
		SEP(i);
		const char *id = s.trains[i].id;
		t_bidib_train_position_query p = bidib_get_train_position(id);
		fputs("{\"id\":", vout); p_sid(id);
		fprintf(vout, ",\"on\":%u,\"left\":%u,\"segs\":[", (unsigned) bidib_get_train_on_track(id), BV(p.orientation_is_left));
		for (size_t j = 0; j < p.length; j++) { SEP(j); p_sid(p.segments[j]); }
		t_bidib_train_speed_step_query ss = bidib_get_train_speed_step(id);
		t_bidib_train_speed_kmh_query sk = bidib_get_train_speed_kmh(id);
		fprintf(vout, "],\"ssk\":%u,\"ss\":%d,\"ssf\":%u,\"skk\":%u,\"sk\":%d}", BV(ss.known_and_avail), ss.speed_step, BV(ss.is_forwards),
		        BV(sk.known_and_avail), sk.speed_kmh);
		bidib_free_train_position_query(p);
	}
	fputs("],", vout);
	p_idlist("ontrack", bidib_get_trains_on_track());
	fputc('}', vout);
	bidib_free_track_state(s);
}

/* every enumeration getter (C14 / C15): lists only */
static void proj_lists(void) {
	fputc('{', vout);
	p_idlist("boards", bidib_get_boards()); fputc(',', vout);
	p_idlist("boards_connected", bidib_get_boards_connected()); fputc(',', vout);
	p_idlist("connected_points", bidib_get_connected_points()); fputc(',', vout);
	p_idlist("connected_signals", bidib_get_connected_signals()); fputc(',', vout);
	p_idlist("connected_peripherals", bidib_get_connected_peripherals()); fputc(',', vout);
	p_idlist("connected_segments", bidib_get_connected_segments()); fputc(',', vout);
	p_idlist("connected_reversers", bidib_get_connected_reversers()); fputc(',', vout);
	p_idlist("connected_boosters", bidib_get_connected_boosters()); fputc(',', vout);
	p_idlist("boosters", bidib_get_boosters()); fputc(',', vout);
	p_idlist("track_outputs", bidib_get_track_outputs()); fputc(',', vout);
	p_idlist("connected_track_outputs", bidib_get_connected_track_outputs()); fputc(',', vout);
	p_idlist("trains", bidib_get_trains()); fputc(',', vout);
	p_idlist("trains_on_track", bidib_get_trains_on_track());
	/* per board */
	t_bidib_id_list_query q = bidib_get_boards();
	fputs(",\"perboard\":[", vout);
	for (size_t i = 0; i < q.length; i++) {
		SEP(i);
		fputs("{\"id\":", vout); p_sid(q.ids[i]); fputc(',', vout);
		p_idlist("points", bidib_get_board_points(q.ids[i])); fputc(',', vout);
		p_idlist("signals", bidib_get_board_signals(q.ids[i])); fputc(',', vout);
		p_idlist("peripherals", bidib_get_board_peripherals(q.ids[i])); fputc(',', vout);
		p_idlist("segments", bidib_get_board_segments(q.ids[i])); fputc(',', vout);
		p_idlist("reversers", bidib_get_board_reversers(q.ids[i]));
		t_bidib_board_features_query f = bidib_get_board_features(q.ids[i]);
		fputs(",\"features\":[", vout);
		for (size_t j = 0; j < f.length; j++) fprintf(vout, "%s[%u,%u]", j ? "," : "", f.features[j].number, f.features[j].value);
		fputs("]", vout);
		bidib_free_board_features_query(f);
		/* reverse look-ups: board id and address by unique id, unique id by address (asked only for a connected board) */
		t_bidib_unique_id_query u = bidib_get_uniqueid(q.ids[i]);
		if (u.known) {
			t_bidib_id_query bi = bidib_get_board_id(u.unique_id);
			t_bidib_node_address_query na = bidib_get_nodeaddr_by_uniqueid(u.unique_id);
			fprintf(vout, ",\"byuid\":{\"idk\":%u,\"id\":", BV(bi.known)); p_sid(bi.id);
			fprintf(vout, ",\"ak\":%u,\"addr\":[%u,%u,%u]}", BV(na.known_and_connected), BV(na.known_and_connected) ? na.address.top : 0,
			        BV(na.known_and_connected) ? na.address.sub : 0, BV(na.known_and_connected) ? na.address.subsub : 0);
			bidib_free_id_query(bi);
		} else fputs(",\"byuid\":{\"idk\":255,\"id\":\"<null>\",\"ak\":255,\"addr\":[0,0,0]}", vout);
		t_bidib_node_address_query a2 = bidib_get_nodeaddr(q.ids[i]);
		if (a2.known_and_connected) {
			t_bidib_unique_id_query u2 = bidib_get_uniqueid_by_nodeaddr(a2.address);
			fprintf(vout, ",\"uidbyaddr\":{\"k\":%u,\"uid\":[%u,%u,%u,%u,%u,%u,%u]}", BV(u2.known), u2.known ? u2.unique_id.class_id : 0, u2.known ? u2.unique_id.class_id_ext : 0,
			        u2.known ? u2.unique_id.vendor_id : 0, u2.known ? u2.unique_id.product_id1 : 0, u2.known ? u2.unique_id.product_id2 : 0,
			        u2.known ? u2.unique_id.product_id3 : 0, u2.known ? u2.unique_id.product_id4 : 0);
		} else fputs(",\"uidbyaddr\":{\"k\":255,\"uid\":[]}", vout);
		fputc('}', vout);
	}
	fputs("]", vout);
	bidib_free_id_list_query(q);
	/* look-ups with keys nobody has */
	{
		t_bidib_unique_id_mod nu = {0xEE, 0xEE, 0xEE, 0xEE, 0xEE, 0xEE, 0xEE};
		t_bidib_id_query bi = bidib_get_board_id(nu);
		t_bidib_node_address_query na = bidib_get_nodeaddr_by_uniqueid(nu);
		t_bidib_node_address noaddr = {251, 251, 251};
		t_bidib_unique_id_query u2 = bidib_get_uniqueid_by_nodeaddr(noaddr);
		t_bidib_dcc_address nd = {0xFF, 0xFF};
		t_bidib_id_query ti = bidib_get_train_id(nd);
		fprintf(vout, ",\"unknown\":{\"idk\":%u,\"idnull\":%d,\"ak\":%u,\"uk\":%u,\"tk\":%u,\"tnull\":%d}", BV(bi.known), bi.id == NULL,
		        BV(na.known_and_connected), BV(u2.known), BV(ti.known), ti.id == NULL);
		bidib_free_id_query(bi); bidib_free_id_query(ti);
	}
	/* per train */
	q = bidib_get_trains();
	fputs(",\"pertrain\":[", vout);
	for (size_t i = 0; i < q.length; i++) {
		SEP(i);
		fputs("{\"id\":", vout); p_sid(q.ids[i]); fputc(',', vout);
		p_idlist("peripherals", bidib_get_train_peripherals(q.ids[i]));
		t_bidib_dcc_address_query d = bidib_get_train_dcc_addr(q.ids[i]);
		fprintf(vout, ",\"known\":%u,\"dcc\":[%u,%u]", BV(d.known), d.known ? d.dcc_address.addrl : 0, d.known ? d.dcc_address.addrh : 0);
		if (d.known) {
			t_bidib_id_query ti = bidib_get_train_id(d.dcc_address);
			fprintf(vout, ",\"idbydcc\":{\"k\":%u,\"id\":", BV(ti.known)); p_sid(ti.id); fputc('}', vout);
			bidib_free_id_query(ti);
		} else fputs(",\"idbydcc\":{\"k\":255,\"id\":\"<null>\"}", vout);
		fputc('}', vout);
	}
	fputs("]", vout);
	bidib_free_id_list_query(q);
	fputc('}', vout);
}

/* aspects of accessories / peripherals: aspects <kind> <id> */
static void proj_aspects(const char *kind, const char *id) {
	fputc('{', vout);
	if (!strcmp(kind, "point")) p_idlist("aspects", bidib_get_point_aspects(id));
	else if (!strcmp(kind, "signal")) p_idlist("aspects", bidib_get_signal_aspects(id));
	else p_idlist("aspects", bidib_get_peripheral_aspects(id));
	fputc('}', vout);
}

/* ---------------------------------------------------------------------------------------------------------------
 * Bundles (C17): the snapshot plus the result of every single-entity getter for every id of the snapshot and for an
 * unknown id and NULL, taken at one quiescent moment and KEPT (not freed).  "bundle print k" renders bundle k again
 * later - after state changes, after bidib_stop - and "bundle free k" hands every kept result to its free function
 * exactly once.
 */
#define MAXB 16
typedef struct {
	bool used;
	t_bidib_track_state s;
	size_t npt, nsg;
	t_bidib_unified_accessory_state_query *pt, *sg, upt[2], usg[2];
	t_bidib_peripheral_state_query *per, uper[2];
	t_bidib_segment_state_query *seg, useg[2];
	t_bidib_reverser_state_query *rev, urev[2];
	t_bidib_train_state_query *trn, utrn[2];
	t_bidib_train_position_query *pos, upos[2];
	t_bidib_booster_state_query *bst, ubst[2];
	t_bidib_track_output_state_query *to, uto[2];
	t_bidib_id_list_query boards, trains;
} bundle;
static bundle bundles[MAXB];
static const char *UNK[2] = { "nosuch-id", NULL };

static const char *pt_id(bundle *b, size_t i) { return i < b->s.points_board_count ? b->s.points_board[i].id : b->s.points_dcc[i - b->s.points_board_count].id; }
static const char *sg_id(bundle *b, size_t i) { return i < b->s.signals_board_count ? b->s.signals_board[i].id : b->s.signals_dcc[i - b->s.signals_board_count].id; }

static int bundle_take(void) {
	int k = 0; while (k < MAXB && bundles[k].used) k++;
	if (k == MAXB) return -1;
	bundle *b = &bundles[k]; memset(b, 0, sizeof *b); b->used = true;
	b->s = bidib_get_state();
	b->npt = b->s.points_board_count + b->s.points_dcc_count; b->nsg = b->s.signals_board_count + b->s.signals_dcc_count;
	b->pt = calloc(b->npt + 1, sizeof *b->pt); b->sg = calloc(b->nsg + 1, sizeof *b->sg);
	b->per = calloc(b->s.peripherals_count + 1, sizeof *b->per); b->seg = calloc(b->s.segments_count + 1, sizeof *b->seg);
	b->rev = calloc(b->s.reversers_count + 1, sizeof *b->rev); b->trn = calloc(b->s.trains_count + 1, sizeof *b->trn);
	b->pos = calloc(b->s.trains_count + 1, sizeof *b->pos); b->bst = calloc(b->s.booster_count + 1, sizeof *b->bst);
	b->to = calloc(b->s.track_outputs_count + 1, sizeof *b->to);
	for (size_t i = 0; i < b->npt; i++) b->pt[i] = bidib_get_point_state(pt_id(b, i));
	for (size_t i = 0; i < b->nsg; i++) b->sg[i] = bidib_get_signal_state(sg_id(b, i));
	for (size_t i = 0; i < b->s.peripherals_count; i++) b->per[i] = bidib_get_peripheral_state(b->s.peripherals[i].id);
	for (size_t i = 0; i < b->s.segments_count; i++) b->seg[i] = bidib_get_segment_state(b->s.segments[i].id);
	for (size_t i = 0; i < b->s.reversers_count; i++) b->rev[i] = bidib_get_reverser_state(b->s.reversers[i].id);
	for (size_t i = 0; i < b->s.trains_count; i++) { b->trn[i] = bidib_get_train_state(b->s.trains[i].id); b->pos[i] = bidib_get_train_position(b->s.trains[i].id); }
	for (size_t i = 0; i < b->s.booster_count; i++) b->bst[i] = bidib_get_booster_state(b->s.booster[i].id);
	for (size_t i = 0; i < b->s.track_outputs_count; i++) b->to[i] = bidib_get_track_output_state(b->s.track_outputs[i].id);
	for (int u = 0; u < 2; u++) {
		b->upt[u] = bidib_get_point_state(UNK[u]); b->usg[u] = bidib_get_signal_state(UNK[u]); b->uper[u] = bidib_get_peripheral_state(UNK[u]);
		b->useg[u] = bidib_get_segment_state(UNK[u]); b->urev[u] = bidib_get_reverser_state(UNK[u]); b->utrn[u] = bidib_get_train_state(UNK[u]);
		b->upos[u] = bidib_get_train_position(UNK[u]); b->ubst[u] = bidib_get_booster_state(UNK[u]); b->uto[u] = bidib_get_track_output_state(UNK[u]);
	}
	b->boards = bidib_get_boards(); b->trains = bidib_get_trains();
	return k;
}

static void p_acc_query(const char *id, const t_bidib_unified_accessory_state_query *q) {
	fputs("{\"id\":", vout); p_sid(id); fprintf(vout, ",\"known\":%u,\"type\":%d", BV(q->known), BV(q->known) ? (int) q->type : 0);
	if (BV(q->known) && q->type == BIDIB_ACCESSORY_BOARD) { fputc(',', vout); p_board_acc(&q->board_accessory_state); }
	else if (BV(q->known)) { fputc(',', vout); p_dcc_acc(&q->dcc_accessory_state); }
	else fprintf(vout, ",\"pnull\":%d", q->board_accessory_state.state_id == NULL);
	fputc('}', vout);
}

static void bundle_print(int k) {
	bundle *b = &bundles[k];
	fputs("{\"snap\":{", vout); snapshot(&b->s); fputs("},\"sg\":{", vout);
	OPEN("point"); for (size_t i = 0; i < b->npt; i++) { SEP(i); p_acc_query(pt_id(b, i), &b->pt[i]); } fputs("],", vout);
	OPEN("signal"); for (size_t i = 0; i < b->nsg; i++) { SEP(i); p_acc_query(sg_id(b, i), &b->sg[i]); } fputs("],", vout);
	OPEN("per"); for (size_t i = 0; i < b->s.peripherals_count; i++) { SEP(i); fputs("{\"id\":", vout); p_sid(b->s.peripherals[i].id); fprintf(vout, ",\"known\":%u,", BV(b->per[i].available)); p_periph(&b->per[i].data); fputc('}', vout); } fputs("],", vout);
	OPEN("seg"); for (size_t i = 0; i < b->s.segments_count; i++) { SEP(i); fputs("{\"id\":", vout); p_sid(b->s.segments[i].id); fprintf(vout, ",\"known\":%u,", BV(b->seg[i].known)); p_segment(&b->seg[i].data); fputc('}', vout); } fputs("],", vout);
	OPEN("rev"); for (size_t i = 0; i < b->s.reversers_count; i++) { SEP(i); fputs("{\"id\":", vout); p_sid(b->s.reversers[i].id); fprintf(vout, ",\"known\":%u,", BV(b->rev[i].available)); p_reverser(&b->rev[i].data); fputc('}', vout); } fputs("],", vout);
	OPEN("trn"); for (size_t i = 0; i < b->s.trains_count; i++) { SEP(i); fputs("{\"id\":", vout); p_sid(b->s.trains[i].id); fprintf(vout, ",\"known\":%u,", BV(b->trn[i].known)); p_train(&b->trn[i].data); fputc('}', vout); } fputs("],", vout);
	OPEN("pos"); for (size_t i = 0; i < b->s.trains_count; i++) { SEP(i); fputs("{\"id\":", vout); p_sid(b->s.trains[i].id); fprintf(vout, ",\"left\":%u,\"segs\":[", BV(b->pos[i].orientation_is_left));
		for (size_t j = 0; j < b->pos[i].length; j++) { SEP(j); p_sid(b->pos[i].segments[j]); } fputs("]}", vout); } fputs("],", vout);
	OPEN("bst"); for (size_t i = 0; i < b->s.booster_count; i++) { SEP(i); fputs("{\"id\":", vout); p_sid(b->s.booster[i].id); fprintf(vout, ",\"known\":%u,", BV(b->bst[i].known)); p_booster(&b->bst[i].data); fputc('}', vout); } fputs("],", vout);
	OPEN("to"); for (size_t i = 0; i < b->s.track_outputs_count; i++) { SEP(i); fputs("{\"id\":", vout); p_sid(b->s.track_outputs[i].id); fprintf(vout, ",\"known\":%u,\"cs\":%d}", BV(b->to[i].known), (int) b->to[i].cs_state); } fputs("]},", vout);
	/* unknown id / NULL: known flags, pointer members, counts - everything a caller may look at before freeing */
	fputs("\"unk\":[", vout);
	for (int u = 0; u < 2; u++) {
		SEP(u);
		fprintf(vout, "{\"pt\":%u,\"ptp\":%d,\"sg\":%u,\"sgp\":%d,\"per\":%u,\"perp\":%d,\"seg\":%u,\"segp\":%d,\"segn\":%lu,\"rev\":%u,\"revp\":%d,"
		        "\"trn\":%u,\"trnp\":%d,\"trnn\":%lu,\"pos\":%lu,\"posp\":%d,\"bst\":%u,\"to\":%u}",
		        BV(b->upt[u].known), b->upt[u].board_accessory_state.state_id == NULL, BV(b->usg[u].known), b->usg[u].board_accessory_state.state_id == NULL,
		        BV(b->uper[u].available), b->uper[u].data.state_id == NULL, BV(b->useg[u].known), b->useg[u].data.dcc_addresses == NULL,
		        (unsigned long) b->useg[u].data.dcc_address_cnt, BV(b->urev[u].available), b->urev[u].data.state_id == NULL,
		        BV(b->utrn[u].known), b->utrn[u].data.peripherals == NULL, (unsigned long) b->utrn[u].data.peripheral_cnt,
		        (unsigned long) b->upos[u].length, b->upos[u].segments == NULL, BV(b->ubst[u].known), BV(b->uto[u].known));
	}
	fputs("],", vout);
	p_idlist_keep("boards", b->boards); fputc(',', vout); p_idlist_keep("trains", b->trains);
	fputc('}', vout);
}

static void bundle_free(int k) {
	bundle *b = &bundles[k];
	for (size_t i = 0; i < b->npt; i++) bidib_free_unified_accessory_state_query(b->pt[i]);
	for (size_t i = 0; i < b->nsg; i++) bidib_free_unified_accessory_state_query(b->sg[i]);
	for (size_t i = 0; i < b->s.peripherals_count; i++) bidib_free_peripheral_state_query(b->per[i]);
	for (size_t i = 0; i < b->s.segments_count; i++) bidib_free_segment_state_query(b->seg[i]);
	for (size_t i = 0; i < b->s.reversers_count; i++) bidib_free_reverser_state_query(b->rev[i]);
	for (size_t i = 0; i < b->s.trains_count; i++) { bidib_free_train_state_query(b->trn[i]); bidib_free_train_position_query(b->pos[i]); }
	for (int u = 0; u < 2; u++) {
		bidib_free_unified_accessory_state_query(b->upt[u]); bidib_free_unified_accessory_state_query(b->usg[u]);
		bidib_free_peripheral_state_query(b->uper[u]); bidib_free_segment_state_query(b->useg[u]); bidib_free_reverser_state_query(b->urev[u]);
		bidib_free_train_state_query(b->utrn[u]); bidib_free_train_position_query(b->upos[u]);
	}
	bidib_free_id_list_query(b->boards); bidib_free_id_list_query(b->trains);
	free(b->pt); free(b->sg); free(b->per); free(b->seg); free(b->rev); free(b->trn); free(b->pos); free(b->bst); free(b->to);
	bidib_free_track_state(b->s);
	b->used = false;
}

void proj_bundle(const char *what, int k) {
	if (!strcmp(what, "take")) { k = bidib_running ? bundle_take() : -1; fprintf(vout, "{\"k\":%d,\"b\":", k); if (k >= 0) bundle_print(k); else fputs("null", vout); fputc('}', vout); }
	else if (!strcmp(what, "print") && k >= 0 && k < MAXB && bundles[k].used) { fprintf(vout, "{\"k\":%d,\"b\":", k); bundle_print(k); fputc('}', vout); }
	else if (!strcmp(what, "free") && k >= 0 && k < MAXB && bundles[k].used) { bundle_free(k); fprintf(vout, "{\"k\":%d}", k); }
	else fputs("null", vout);
}

/* single-entity getter by name; the result is printed with the same field names as the snapshot, then freed once */
static const char *A(int n, char **tok, int i) {
	if (i >= n || strcmp(tok[i], "~") == 0) return NULL;
	if (strcmp(tok[i], "%e") == 0) return "";
	return tok[i];
}

void proj_get(const char *fn, int n, char **tok) {
	const char *a = A(n, tok, 0);
	if (!strcmp(fn, "all")) { proj_all(); return; }
	if (!strcmp(fn, "lists")) { proj_lists(); return; }
	if (!strcmp(fn, "aspects")) { proj_aspects(a ? a : "", A(n, tok, 1)); return; }
	fputc('{', vout);
	if (!strcmp(fn, "bidib_get_point_state") || !strcmp(fn, "bidib_get_signal_state")) {
		t_bidib_unified_accessory_state_query q = !strcmp(fn, "bidib_get_point_state") ? bidib_get_point_state(a) : bidib_get_signal_state(a);
		fprintf(vout, "\"known\":%u,\"type\":%d,", BV(q.known), (int) q.type);
		if (BV(q.known) && q.type == BIDIB_ACCESSORY_BOARD) p_board_acc(&q.board_accessory_state);
		else if (BV(q.known)) p_dcc_acc(&q.dcc_accessory_state);
		else { fputs("\"sidnull\":", vout); fputs(q.board_accessory_state.state_id == NULL ? "1" : "0", vout); }
		bidib_free_unified_accessory_state_query(q);
	} else if (!strcmp(fn, "bidib_get_peripheral_state")) {
		t_bidib_peripheral_state_query q = bidib_get_peripheral_state(a);
		fprintf(vout, "\"known\":%u,", BV(q.available));
		if (BV(q.available)) p_periph(&q.data); else fprintf(vout, "\"sidnull\":%d", q.data.state_id == NULL);
		bidib_free_peripheral_state_query(q);
	} else if (!strcmp(fn, "bidib_get_segment_state")) {
		t_bidib_segment_state_query q = bidib_get_segment_state(a);
		fprintf(vout, "\"known\":%u,", BV(q.known));
		if (BV(q.known)) p_segment(&q.data); else fprintf(vout, "\"sidnull\":%d", q.data.dcc_addresses == NULL);
		bidib_free_segment_state_query(q);
	} else if (!strcmp(fn, "bidib_get_reverser_state")) {
		t_bidib_reverser_state_query q = bidib_get_reverser_state(a);
		fprintf(vout, "\"known\":%u,", BV(q.available));
		if (BV(q.available)) p_reverser(&q.data); else fprintf(vout, "\"sidnull\":%d", q.data.state_id == NULL);
		bidib_free_reverser_state_query(q);
	} else if (!strcmp(fn, "bidib_get_train_state")) {
		t_bidib_train_state_query q = bidib_get_train_state(a);
		fprintf(vout, "\"known\":%u,", BV(q.known));
		if (BV(q.known)) p_train(&q.data); else fprintf(vout, "\"sidnull\":%d", q.data.peripherals == NULL);
		bidib_free_train_state_query(q);
	} else if (!strcmp(fn, "bidib_get_booster_state")) {
		t_bidib_booster_state_query q = bidib_get_booster_state(a);
		fprintf(vout, "\"known\":%u", BV(q.known));
		if (BV(q.known)) { fputc(',', vout); p_booster(&q.data); }
	} else if (!strcmp(fn, "bidib_get_track_output_state")) {
		t_bidib_track_output_state_query q = bidib_get_track_output_state(a);
		fprintf(vout, "\"known\":%u", BV(q.known));
		if (BV(q.known)) fprintf(vout, ",\"cs\":%d", (int) q.cs_state);
	} else if (!strcmp(fn, "bidib_get_train_peripheral_state")) {
		t_bidib_train_peripheral_state_query q = bidib_get_train_peripheral_state(a, A(n, tok, 1));
		fprintf(vout, "\"known\":%u,\"st\":%u", BV(q.available), q.state);
	} else if (!strcmp(fn, "bidib_get_train_position")) {
		t_bidib_train_position_query p = bidib_get_train_position(a);
		fprintf(vout, "\"left\":%u,\"segs\":[", BV(p.orientation_is_left));
		for (size_t j = 0; j < p.length; j++) { SEP(j); p_sid(p.segments[j]); }
		fputs("]", vout);
		bidib_free_train_position_query(p);
	} else if (!strcmp(fn, "bidib_get_nodeaddr")) {
		t_bidib_node_address_query q = bidib_get_nodeaddr(a);
		fprintf(vout, "\"known\":%u", BV(q.known_and_connected));
		if (BV(q.known_and_connected)) fprintf(vout, ",\"addr\":[%u,%u,%u]", q.address.top, q.address.sub, q.address.subsub);
	} else if (!strcmp(fn, "bidib_get_uniqueid")) {
		t_bidib_unique_id_query u = bidib_get_uniqueid(a);
		fprintf(vout, "\"known\":%u", BV(u.known));
	} else if (!strcmp(fn, "bidib_get_train_dcc_addr")) {
		t_bidib_dcc_address_query d = bidib_get_train_dcc_addr(a);
		fprintf(vout, "\"known\":%u", BV(d.known));
		if (BV(d.known)) fprintf(vout, ",\"dcc\":[%u,%u,%u]", d.dcc_address.addrl, d.dcc_address.addrh, d.dcc_address.type);
	} else if (!strcmp(fn, "bidib_get_board_connected")) {
		fprintf(vout, "\"conn\":%u", (unsigned) bidib_get_board_connected(a));
	} else if (!strcmp(fn, "bidib_get_train_on_track")) {
		fprintf(vout, "\"on\":%u", (unsigned) bidib_get_train_on_track(a));
	} else if (!strcmp(fn, "bidib_get_board_features")) {
		t_bidib_board_features_query f = bidib_get_board_features(a);
		fputs("\"features\":[", vout);
		for (size_t j = 0; j < f.length; j++) fprintf(vout, "%s[%u,%u]", j ? "," : "", f.features[j].number, f.features[j].value);
		fputs("]", vout);
		bidib_free_board_features_query(f);
	} else if (!strncmp(fn, "bidib_get_board_", 16) || !strcmp(fn, "bidib_get_train_peripherals") || strstr(fn, "_aspects")) {
		t_bidib_id_list_query q = {0, NULL};
		if (!strcmp(fn, "bidib_get_board_points")) q = bidib_get_board_points(a);
		else if (!strcmp(fn, "bidib_get_board_signals")) q = bidib_get_board_signals(a);
		else if (!strcmp(fn, "bidib_get_board_peripherals")) q = bidib_get_board_peripherals(a);
		else if (!strcmp(fn, "bidib_get_board_segments")) q = bidib_get_board_segments(a);
		else if (!strcmp(fn, "bidib_get_board_reversers")) q = bidib_get_board_reversers(a);
		else if (!strcmp(fn, "bidib_get_train_peripherals")) q = bidib_get_train_peripherals(a);
		else if (!strcmp(fn, "bidib_get_point_aspects")) q = bidib_get_point_aspects(a);
		else if (!strcmp(fn, "bidib_get_signal_aspects")) q = bidib_get_signal_aspects(a);
		else if (!strcmp(fn, "bidib_get_peripheral_aspects")) q = bidib_get_peripheral_aspects(a);
		p_idlist("ids", q);
	} else if (!strcmp(fn, "bidib_get_point_state_index") || !strcmp(fn, "bidib_get_signal_state_index") || !strcmp(fn, "bidib_get_segment_state_index")) {
		long r = !strcmp(fn, "bidib_get_point_state_index") ? (long) bidib_get_point_state_index(a)
		       : !strcmp(fn, "bidib_get_signal_state_index") ? (long) bidib_get_signal_state_index(a) : (long) bidib_get_segment_state_index(a);
		fprintf(vout, "\"idx\":%ld", r);
	} else {
		fputs("\"err\":\"unknown getter\"", vout);
	}
	fputc('}', vout);
}
