/* hl.c - high-level calls by name */
#define _GNU_SOURCE
#include <string.h>
#include <stdlib.h>
#include "vdrv.h"

static const char *S(int n, char **tok, int i) {
	if (i >= n || strcmp(tok[i], "~") == 0) return NULL;
	if (strcmp(tok[i], "%e") == 0) return "";
	return tok[i];
}
static long I(int n, char **tok, int i) { return i < n ? strtol(tok[i], NULL, 0) : 0; }

long hl_call(const char *fn, int n, char **tok) {
	if (!strcmp(fn, "bidib_switch_point")) return bidib_switch_point(S(n, tok, 0), S(n, tok, 1));
	if (!strcmp(fn, "bidib_set_signal")) return bidib_set_signal(S(n, tok, 0), S(n, tok, 1));
	if (!strcmp(fn, "bidib_set_peripheral")) return bidib_set_peripheral(S(n, tok, 0), S(n, tok, 1));
	if (!strcmp(fn, "bidib_set_train_speed")) return bidib_set_train_speed(S(n, tok, 0), (int) I(n, tok, 1), S(n, tok, 2));
	if (!strcmp(fn, "bidib_set_calibrated_train_speed")) return bidib_set_calibrated_train_speed(S(n, tok, 0), (int) I(n, tok, 1), S(n, tok, 2));
	if (!strcmp(fn, "bidib_emergency_stop_train")) return bidib_emergency_stop_train(S(n, tok, 0), S(n, tok, 1));
	if (!strcmp(fn, "bidib_set_train_peripheral")) return bidib_set_train_peripheral(S(n, tok, 0), S(n, tok, 1), (uint8_t) I(n, tok, 2), S(n, tok, 3));
	if (!strcmp(fn, "bidib_set_booster_power_state")) return bidib_set_booster_power_state(S(n, tok, 0), I(n, tok, 1) != 0);
	if (!strcmp(fn, "bidib_set_track_output_state")) return bidib_set_track_output_state(S(n, tok, 0), (t_bidib_cs_state) I(n, tok, 1));
	if (!strcmp(fn, "bidib_set_track_output_state_all")) { bidib_set_track_output_state_all((t_bidib_cs_state) I(n, tok, 0)); return 0; }
	if (!strcmp(fn, "bidib_request_reverser_state")) return bidib_request_reverser_state(S(n, tok, 0), S(n, tok, 1));
	if (!strcmp(fn, "bidib_ping")) return bidib_ping(S(n, tok, 0), (uint8_t) I(n, tok, 1));
	if (!strcmp(fn, "bidib_identify")) return bidib_identify(S(n, tok, 0), (uint8_t) I(n, tok, 1));
	if (!strcmp(fn, "bidib_get_protocol_version")) return bidib_get_protocol_version(S(n, tok, 0));
	if (!strcmp(fn, "bidib_get_software_version")) return bidib_get_software_version(S(n, tok, 0));
	return -99;
}
