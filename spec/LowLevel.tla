------------------------------ MODULE LowLevel ------------------------------
(***************************************************************************)
(* The public low-level constructors (include/lowlevel/*.h) as a relation  *)
(*   (function name, argument tuple)  ->  allowed outcomes                 *)
(* written from the documented parameter ranges and the BiDiB message      *)
(* layouts (bidib_messages.h), not from the C bodies.                      *)
(*                                                                         *)
(* args is the argument tuple without node address and action id, in       *)
(* declaration order; uint8_t arguments are naturals, by-value structs and *)
(* pointer arguments are byte sequences (struct members in declaration     *)
(* order; t_bidib_dcc_address = <<addrl, addrh, type>>), t_bidib_vendor_data*)
(* is four entries <<name_length, name, value_length, value>>.             *)
(*                                                                         *)
(* LLSpec(fn, args) = [acc |-> "yes" | "no" | "any", ty |-> type, data |-> bytes]   *)
(*   "yes": the call must submit exactly MsgBytes(addr, seq, ty, data)     *)
(*   "no" : the call must submit nothing                                   *)
(*   "any": boundary the documentation leaves open; either outcome is fine,*)
(*          but a submitted message must be the stated one and obey        *)
(*          the protocol maximum (length byte <= 127)                      *)
(***************************************************************************)
EXTENDS Naturals, Sequences, SequencesExt, Tables

Rej == [acc |-> "no", ty |-> 0, data |-> <<>>]
Acc(ty, data) == [acc |-> "yes", ty |-> ty, data |-> data]
AccIf(c, ty, data) == IF c THEN Acc(ty, data) ELSE Rej

(* i-th byte of a pointer argument; the harness pads short buffers with 0xA5 *)
At(p, i) == IF i <= Len(p) THEN p[i] ELSE 165
Take(p, n) == [i \in 1..n |-> At(p, i)]

IsWs(b) == b \in {32, 9, 13, 10}
NoWs(s) == SelectSeq(s, LAMBDA b : ~IsWs(b))

CsStates == {0, 1, 2, 3, 4, 8, 9, 13, 255}
PomOpcodes == {0, 1, 2, 3, 67, 71, 128, 129, 130, 131, 135, 139, 143}

LLSpec(fn, a) ==
  CASE fn = "bidib_send_sys_get_magic"       -> Acc(MSG_SYS_GET_MAGIC, <<>>)
    [] fn = "bidib_send_sys_get_p_version"   -> Acc(MSG_SYS_GET_P_VERSION, <<>>)
    [] fn = "bidib_send_sys_enable"          -> Acc(MSG_SYS_ENABLE, <<>>)
    [] fn = "bidib_send_sys_disable"         -> Acc(MSG_SYS_DISABLE, <<>>)
    [] fn = "bidib_send_sys_get_unique_id"   -> Acc(MSG_SYS_GET_UNIQUE_ID, <<>>)
    [] fn = "bidib_send_sys_get_sw_version"  -> Acc(MSG_SYS_GET_SW_VERSION, <<>>)
    [] fn = "bidib_send_sys_ping"            -> Acc(MSG_SYS_PING, <<a[1]>>)
    [] fn = "bidib_send_sys_identify"        -> AccIf(a[1] <= 1, MSG_SYS_IDENTIFY, <<a[1]>>)
    [] fn = "bidib_send_sys_get_error"       -> Acc(MSG_SYS_GET_ERROR, <<>>)
    [] fn = "bidib_send_nodetab_getall"      -> Acc(MSG_NODETAB_GETALL, <<>>)
    [] fn = "bidib_send_nodetab_getnext"     -> Acc(MSG_NODETAB_GETNEXT, <<>>)
    [] fn = "bidib_send_get_pkt_capacity"    -> Acc(MSG_GET_PKT_CAPACITY, <<>>)
    [] fn = "bidib_send_node_changed_ack"    -> Acc(MSG_NODE_CHANGED_ACK, <<a[1]>>)
    [] fn = "bidib_send_sys_clock"           ->
         AccIf(a[1] <= 59 /\ a[2] \in 128..151 /\ a[3] \in 64..70 /\ a[4] \in 192..223,
               MSG_SYS_CLOCK, <<a[1], a[2], a[3], a[4]>>)
    [] fn = "bidib_send_feature_getall"      -> Acc(MSG_FEATURE_GETALL, <<>>)
    [] fn = "bidib_send_feature_getnext"     -> Acc(MSG_FEATURE_GETNEXT, <<>>)
    [] fn = "bidib_send_feature_get"         -> Acc(MSG_FEATURE_GET, <<a[1]>>)
    [] fn = "bidib_send_feature_set"         -> Acc(MSG_FEATURE_SET, <<a[1], a[2]>>)
    [] fn = "bidib_send_vendor_enable"       -> Acc(MSG_VENDOR_ENABLE, Take(a[1], 7))
    [] fn = "bidib_send_vendor_disable"      -> Acc(MSG_VENDOR_DISABLE, <<>>)
    [] fn = "bidib_send_vendor_set"          ->
         AccIf(a[1] + a[3] <= 119, MSG_VENDOR_SET, <<a[1]>> \o Take(a[2], a[1]) \o <<a[3]>> \o Take(a[4], a[3]))
    [] fn = "bidib_send_vendor_get"          -> AccIf(a[1] <= 120, MSG_VENDOR_GET, <<a[1]>> \o Take(a[2], a[1]))
    [] fn = "bidib_send_string_set"          -> AccIf(a[3] <= 118, MSG_STRING_SET, <<a[1], a[2], a[3]>> \o Take(a[4], a[3]))
    [] fn = "bidib_send_string_get"          -> Acc(MSG_STRING_GET, <<a[1], a[2]>>)
    [] fn = "bidib_send_fw_update_op_enter"  -> Acc(MSG_FW_UPDATE_OP, <<0>> \o Take(a[1], 7))
    [] fn = "bidib_send_fw_update_op_exit"   -> Acc(MSG_FW_UPDATE_OP, <<1>>)
    [] fn = "bidib_send_fw_update_op_setdest" -> AccIf(a[1] <= 1, MSG_FW_UPDATE_OP, <<2, a[1]>>)
    [] fn = "bidib_send_fw_update_op_data"   ->
         (* a line of an Intel hex file, blanks / tabs / CR / LF removed; the documentation gives no
            maximum, the implementation's message says "max message length is 127 bytes":
            up to 120 bytes always fit, more than 121 never do, 121 fits unless the address has depth 3 *)
         [acc |-> IF a[1] <= 120 THEN "yes" ELSE IF a[1] = 121 THEN "any" ELSE "no",
          ty |-> MSG_FW_UPDATE_OP, data |-> <<3>> \o NoWs(Take(a[2], a[1]))]
    [] fn = "bidib_send_fw_update_op_done"   -> Acc(MSG_FW_UPDATE_OP, <<4>>)
    [] fn = "bidib_send_bm_get_range"        -> AccIf(a[1] % 8 = 0 /\ a[2] % 8 = 0, MSG_BM_GET_RANGE, <<a[1], a[2]>>)
    [] fn = "bidib_send_bm_mirror_multiple"  ->
         AccIf(a[1] % 8 = 0 /\ a[2] >= 8 /\ a[2] <= 128 /\ a[2] % 8 = 0,
               MSG_BM_MIRROR_MULTIPLE, <<a[1], a[2]>> \o Take(a[3], a[2] \div 8))
    [] fn = "bidib_send_bm_mirror_occ"       -> Acc(MSG_BM_MIRROR_OCC, <<a[1]>>)
    [] fn = "bidib_send_bm_mirror_free"      -> Acc(MSG_BM_MIRROR_FREE, <<a[1]>>)
    [] fn = "bidib_send_bm_addr_get_range"   -> AccIf(a[1] <= a[2], MSG_BM_ADDR_GET_RANGE, <<a[1], a[2]>>)
    [] fn = "bidib_send_bm_get_confidence"   -> Acc(MSG_BM_GET_CONFIDENCE, <<>>)
    [] fn = "bidib_send_msg_bm_mirror_position" -> Acc(MSG_BM_MIRROR_POSITION, <<a[1], a[2], a[3]>>)
    [] fn = "bidib_send_boost_on"            -> AccIf(a[1] <= 1, MSG_BOOST_ON, <<a[1]>>)
    [] fn = "bidib_send_boost_off"           -> AccIf(a[1] <= 1, MSG_BOOST_OFF, <<a[1]>>)
    [] fn = "bidib_send_boost_query"         -> Acc(MSG_BOOST_QUERY, <<>>)
    [] fn = "bidib_send_accessory_set"       -> AccIf(a[1] <= 127 /\ a[2] <= 127, MSG_ACCESSORY_SET, <<a[1], a[2]>>)
    [] fn = "bidib_send_accessory_get"       -> AccIf(a[1] <= 127, MSG_ACCESSORY_GET, <<a[1]>>)
    [] fn = "bidib_send_accessory_para_set_opmode"  -> AccIf(a[1] <= 127 /\ a[2] <= 127, MSG_ACCESSORY_PARA_SET, <<a[1], 251, a[2]>>)
    [] fn = "bidib_send_accessory_para_set_startup" -> AccIf(a[1] <= 127 /\ (a[2] <= 127 \/ a[2] >= 254), MSG_ACCESSORY_PARA_SET, <<a[1], 252, a[2]>>)
    [] fn = "bidib_send_accessory_para_set_macromap" ->
         AccIf(a[1] <= 127 /\ a[2] >= 1 /\ a[2] <= 16 /\ At(a[3], a[2]) = 255,
               MSG_ACCESSORY_PARA_SET, <<a[1], 253>> \o Take(a[3], a[2]))
    [] fn = "bidib_send_accessory_para_set_switch_time" -> AccIf(a[1] <= 127, MSG_ACCESSORY_PARA_SET, <<a[1], 254, a[2]>>)
    [] fn = "bidib_send_accessory_para_get"  -> AccIf(a[1] <= 127 /\ a[2] >= 251, MSG_ACCESSORY_PARA_GET, <<a[1], a[2]>>)
    [] fn = "bidib_send_lc_output"           -> Acc(MSG_LC_OUTPUT, <<a[1], a[2], a[3]>>)
    [] fn = "bidib_send_lc_port_query"       -> Acc(MSG_LC_PORT_QUERY, <<a[1], a[2]>>)
    [] fn = "bidib_send_lc_port_query_all"   -> Acc(MSG_LC_PORT_QUERY_ALL, Take(a[1], 6))
    [] fn = "bidib_send_lc_configx_set"      ->
         AccIf(a[3] >= 1 /\ a[3] <= 8, MSG_LC_CONFIGX_SET, <<a[1], a[2]>> \o Take(a[4], 2 * a[3]))
    [] fn = "bidib_send_lc_configx_get"      -> Acc(MSG_LC_CONFIGX_GET, <<a[1], a[2]>>)
    [] fn = "bidib_send_lc_configx_get_all"  -> Acc(MSG_LC_CONFIGX_GET_ALL, <<a[1], a[2]>> \o Take(a[3], 4))
    [] fn = "bidib_send_lc_macro_handle"     -> AccIf(a[2] <= 1 \/ a[2] >= 252, MSG_LC_MACRO_HANDLE, <<a[1], a[2]>>)
    [] fn = "bidib_send_lc_macro_set"        -> Acc(MSG_LC_MACRO_SET, Take(a[1], 6))
    [] fn = "bidib_send_lc_macro_get"        -> Acc(MSG_LC_MACRO_GET, <<a[1], a[2]>>)
    [] fn = "bidib_send_lc_macro_para_set"   -> Acc(MSG_LC_MACRO_PARA_SET, Take(a[1], 6))
    [] fn = "bidib_send_lc_macro_para_get"   -> Acc(MSG_LC_MACRO_PARA_GET, <<a[1], a[2]>>)
    [] fn = "bidib_send_cs_allocate"         -> Acc(MSG_CS_ALLOCATE, <<0>>)
    [] fn = "bidib_send_cs_set_state"        -> AccIf(a[1] \in CsStates, MSG_CS_SET_STATE, <<a[1]>>)
    [] fn = "bidib_send_cs_drive"            ->
         LET s == Take(a[1], 10) IN
         AccIf(s[4] \in {0, 2, 3} /\ s[5] <= 63 /\ s[7] <= 31, MSG_CS_DRIVE,
               <<s[1], s[2], s[4], s[5], s[6], s[7], s[8], s[9], s[10]>>)
    [] fn = "bidib_send_cs_accessory"        -> LET s == Take(a[1], 5) IN Acc(MSG_CS_ACCESSORY, <<s[1], s[2], s[4], s[5]>>)
    [] fn = "bidib_send_cs_pom"              ->
         LET s == Take(a[1], 14) IN
         AccIf(s[7] \in PomOpcodes, MSG_CS_POM, <<s[1], s[2]>> \o SubSeq(s, 4, 14))
    [] fn = "bidib_send_cs_bin_state"        -> LET s == Take(a[1], 6) IN AccIf(s[6] <= 1, MSG_CS_BIN_STATE, <<s[1], s[2], s[4], s[5], s[6]>>)
    [] fn = "bidib_send_cs_prog"             -> LET s == Take(a[1], 4) IN AccIf(s[1] <= 4, MSG_CS_PROG, s)
    [] fn = "bidib_send_cs_rcplus_get_id"    -> Acc(MSG_CS_RCPLUS, <<2>>)
    [] fn = "bidib_send_cs_rcplus_set_id"    -> Acc(MSG_CS_RCPLUS, <<3>> \o Take(a[1], 6))
    [] fn = "bidib_send_cs_rcplus_ping"      -> Acc(MSG_CS_RCPLUS, <<1, a[1]>>)
    [] fn = "bidib_send_cs_rcplus_ping_once_p0" -> Acc(MSG_CS_RCPLUS, <<4>>)
    [] fn = "bidib_send_cs_rcplus_ping_once_p1" -> Acc(MSG_CS_RCPLUS, <<5>>)
    [] fn = "bidib_send_cs_rcplus_bind"      -> Acc(MSG_CS_RCPLUS, <<0>> \o Take(a[1], 5) \o <<a[2], a[3]>>)
    [] fn = "bidib_send_cs_rcplus_find_p0"   -> Acc(MSG_CS_RCPLUS, <<6>> \o Take(a[1], 5))
    [] fn = "bidib_send_cs_rcplus_find_p1"   -> Acc(MSG_CS_RCPLUS, <<7>> \o Take(a[1], 5))
    [] OTHER -> [acc |-> "unknown", ty |-> 0, data |-> <<>>]

(* functions that ignore their address argument / have none: the message goes to the interface *)
LLBroadcast(fn) == fn \in {"bidib_send_sys_enable", "bidib_send_sys_disable"}

(* node address <<top, sub, subsub>> -> address stack (non-zero prefix) *)
AddrOf(na) == IF na[1] = 0 THEN <<>> ELSE IF na[2] = 0 THEN <<na[1]>> ELSE IF na[3] = 0 THEN <<na[1], na[2]>> ELSE <<na[1], na[2], na[3]>>

(* length byte of the message a call would submit *)
LenByte(addr, data) == Len(addr) + 3 + Len(data)
=============================================================================
