------------------------------ MODULE Lifecycle ------------------------------
(***************************************************************************)
(* Sessions of the library within one process (C16): start / stop with     *)
(* every combination of configuration validity, mode, auto-flush setting   *)
(* and interface behaviour; the internal threads and their handles; the    *)
(* process-lifetime globals that a later session inherits.                 *)
(*                                                                         *)
(* The C statics are modelled as what they are: values that survive        *)
(* bidib_stop unless somebody resets them.  LQ selects the pinned code's   *)
(* behaviour ("StaleHandles": handles are not cleared after the join;      *)
(* "StickyGlobals": sequence numbering / rx-discard / packet capacity are  *)
(* not re-initialised) - with LQ = {} the model is the property.           *)
(***************************************************************************)
EXTENDS Naturals, Sequences, FiniteSets

CONSTANT LQ

VARIABLES running,      \* BOOLEAN
          handles,      \* [rx, af, hb] -> 0 (never set / cleared) or a thread id
          threads,      \* [thread id -> "live" | "joined"]   every thread ever created
          badjoins,     \* number of joins of something that is not a live thread (undefined behaviour in C)
          glob,         \* [seqOn, discard, cap]   process-lifetime globals
          sess          \* number of starts that went past the running check
lvars == <<running, handles, threads, badjoins, glob, sess>>

Glob0 == [seqOn |-> TRUE, discard |-> TRUE, cap |-> 64]
LInit == /\ running = FALSE
         /\ handles = [rx |-> 0, af |-> 0, hb |-> 0]
         /\ threads = << >>
         /\ badjoins = 0
         /\ glob = Glob0
         /\ sess = 0

NewId(th) == Len(th) + 1
Spawn(th) == Append(th, "live")

(* what the join phase of bidib_stop does to handle h *)
JoinOne(st, h) ==       \* st = [handles, threads, bad]
    IF st.handles[h] = 0 THEN st
    ELSE LET id == st.handles[h] IN
         [handles |-> IF "StaleHandles" \in LQ THEN st.handles ELSE [st.handles EXCEPT ![h] = 0],
          threads |-> IF st.threads[id] = "live" THEN [st.threads EXCEPT ![id] = "joined"] ELSE st.threads,
          bad |-> IF st.threads[id] = "live" THEN st.bad ELSE st.bad + 1]
JoinAll(hs, th, bad) == JoinOne(JoinOne(JoinOne([handles |-> hs, threads |-> th, bad |-> bad], "rx"), "af"), "hb")

(* the values a session works with: what start establishes from what it inherits.
   debug: low-level debug mode; works: the interface answers the connection probe *)
GlobAtStart(g, debug, works) ==
    LET base == IF "StickyGlobals" \in LQ THEN g ELSE Glob0 IN
    IF debug THEN [base EXCEPT !.discard = FALSE]
    ELSE IF works THEN [base EXCEPT !.seqOn = TRUE, !.discard = FALSE]       \* probe switches numbering off and, on success, on again
    ELSE [base EXCEPT !.seqOn = FALSE, !.discard = TRUE]

(* start(cfg, debug, flush, works) -> ret.  cfg = "ok" | "bad" (a configuration the parser rejects) | "none" (NULL,
   only legal in debug mode).  ok = the start succeeds and the library keeps running *)
StartOk(cfg, debug, works) == cfg # "bad" /\ (debug \/ works)

Start(cfg, debug, flush, works, ret) ==
    IF ~debug /\ cfg = "none" THEN /\ ret = 1 /\ UNCHANGED lvars   \* rejected before anything happens
    ELSE IF running THEN /\ ret = 0 /\ UNCHANGED lvars            \* start while running does nothing
    ELSE LET th1 == Spawn(Spawn(threads))
             rx == NewId(threads)  hb == NewId(threads) + 1
             th2 == IF flush THEN Spawn(th1) ELSE th1
             hs == [rx |-> rx, hb |-> hb, af |-> IF flush THEN NewId(th1) ELSE handles.af]
             ok == StartOk(cfg, debug, works)
             g1 == GlobAtStart(glob, debug, works)
         IN /\ sess' = sess + 1
            /\ ret = (IF ok THEN 0 ELSE 1)
            /\ IF ok
               THEN /\ running' = TRUE /\ handles' = hs /\ threads' = th2 /\ glob' = g1 /\ UNCHANGED badjoins
               ELSE LET j == JoinAll(hs, th2, badjoins) IN          \* a failed start stops the library again
                    /\ running' = FALSE /\ handles' = j.handles /\ threads' = j.threads /\ badjoins' = j.bad
                    /\ glob' = IF "StickyGlobals" \in LQ THEN g1 ELSE Glob0

(* bidib_start_serial with a device that cannot be opened (dev = "missing") or without a device (dev = "null"):
   "null" is refused before anything happens; otherwise the configuration is read, the port cannot be initialised (or the
   configuration is refused), no thread is created and the library stops again *)
StartSerial(dev, cfg, ret) ==
    IF dev = "null" \/ cfg = "none" THEN /\ ret = 1 /\ UNCHANGED lvars
    ELSE IF running THEN /\ ret = 0 /\ UNCHANGED lvars
    ELSE LET j == JoinAll(handles, threads, badjoins) IN          \* the stop of a start that created no thread
         /\ ret = 1 /\ sess' = sess + 1
         /\ running' = FALSE /\ handles' = j.handles /\ threads' = j.threads /\ badjoins' = j.bad
         /\ glob' = IF "StickyGlobals" \in LQ THEN glob ELSE Glob0

Stop == IF ~running THEN UNCHANGED lvars                           \* stop while stopped does nothing
        ELSE LET j == JoinAll(handles, threads, badjoins) IN
             /\ running' = FALSE /\ handles' = j.handles /\ threads' = j.threads /\ badjoins' = j.bad
             /\ glob' = IF "StickyGlobals" \in LQ THEN glob ELSE Glob0
             /\ UNCHANGED sess

(* the interface announces a packet capacity during a session *)
Capacity(c) == /\ running /\ glob' = [glob EXCEPT !.cap = IF c <= 64 THEN 64 ELSE c] /\ UNCHANGED <<running, handles, threads, badjoins, sess>>

(* ------------------------------------------------------------ properties *)
(* each created thread is joined exactly once: never a join of a non-live thread, and no live thread while stopped *)
JoinedOnce == badjoins = 0
NoThreadLeft == ~running => \A i \in DOMAIN threads : threads[i] = "joined"
RunningThreads == running => Cardinality({i \in DOMAIN threads : threads[i] = "live"}) \in {2, 3}
(* every session starts from the initial library state (behaves as the first) *)
FreshWhenStopped == ~running => glob = Glob0
=============================================================================
