"""TLC runs over TrackMC (exhaustive, bounded) and TrackSim (behaviour generation for replay)."""
import re, json
from vlib import tlc

# python mirror of TrackMC!MCcfg (the replayed sessions carry it in their start event, where Trace_Track reads it)
MC_CFG = {
    "boards": [{"id": "bA", "uid": [146, 0, 13, 1, 2, 3, 4], "features": [[3, 1]]},
               {"id": "bB", "uid": [64, 0, 13, 5, 6, 7, 8], "features": []},
               {"id": "bC", "uid": [16, 0, 13, 9, 9, 9, 9], "features": []}],
    "track": [{"id": "bB",
               "pb": [{"id": "p1", "num": 2, "aspects": [{"id": "n", "val": 1}, {"id": "r", "val": 0}], "initial": "n"}],
               "sb": [{"id": "s1", "num": 16, "aspects": [{"id": "g", "val": 2}, {"id": "rd", "val": 0}], "initial": None}],
               "pd": [], "sd": [],
               "per": [{"id": "l1", "num": 0, "p0": 35, "p1": 1, "aspects": [{"id": "on", "val": 1}, {"id": "off", "val": 0}], "initial": None}],
               "seg": [{"id": "g1", "addr": 0}, {"id": "g2", "addr": 1}, {"id": "g3", "addr": 9}],
               "rev": [{"id": "rv", "cv": "30"}]},
              {"id": "bA", "pb": [], "sb": [],
               "pd": [{"id": "d1", "al": 34, "ah": 17, "ext": 0, "initial": None,
                       "aspects": [{"id": "n", "ports": [[0, 1], [1, 0]]}, {"id": "r", "ports": [[0, 0], [1, 1]]}]}],
               "sd": [], "per": [], "seg": [], "rev": []},
              {"id": "bC", "pb": [], "sb": [], "pd": [], "sd": [], "per": [], "seg": [{"id": "g9", "addr": 0}], "rev": []}],
    "trains": [{"id": "t1", "al": 35, "ah": 1, "steps": 28, "cal": [5, 15, 30, 45, 60, 75, 90, 105, 126],
                "per": [{"id": "f0", "bit": 0, "initial": None}, {"id": "f4", "bit": 4, "initial": 1}, {"id": "f9", "bit": 9, "initial": None}]},
               {"id": "t2", "al": 2, "ah": 3, "steps": 126, "cal": None,
                "per": [{"id": "h%d" % b, "bit": b, "initial": None} for b in (24, 31, 16, 23, 8, 11, 12, 15)]}],
}
MC_PATHS = {"bA": [], "bB": [1]}

BOUNDS = {False: (2, 1), True: (2, 2)}

def mc_cfg_text(maxup, maxcmd, simdepth=99, sim=False):
    t = "SPECIFICATION MCSpec\nCONSTANTS\n  TQ = {}\n  MaxUp = %d\n  MaxCmd = %d\n  SimDepth = %d\n" % (maxup, maxcmd, simdepth)
    t += "CONSTRAINT Emit\n" if sim else "VIEW View\n"
    return t + "INVARIANTS TypeOk TrainsAgree FreeClears UnknownNoEffect CmdLaws\nCHECK_DEADLOCK FALSE\n"

def model_check(ctx, pid, thorough):
    mu, mc = BOUNDS[thorough]
    r = tlc.run("TrackMC.tla", "_t.cfg", workers=16, timeout=3000 if thorough else 600, xmx="24g" if thorough else "8g",
                extra_files={"_t.cfg": mc_cfg_text(mu, mc)}, coverage=False)
    ctx.add_tlc("TrackMC (all sequences of <= %d uplink messages and <= %d commands from the boundary alphabets)" % (mu, mc), r); tlc.cleanup(r)
    if r.violation: ctx.infra_fail("model TrackMC violates %s: specification defect" % r.violation)
    elif r.error: ctx.infra_fail("TrackMC: " + r.error[:800])

def sim_behaviours(ctx, pid, thorough):
    num = 60 if thorough else 8
    r = tlc.run("TrackMC.tla", "_s.cfg", workers=4, simulate=num, depth=18, timeout=300, seed=ctx.seed,
                extra_files={"_s.cfg": mc_cfg_text(12, 8, 16, sim=True)})
    hs = re.findall(r'"HIST", "(.*)"', r.out); tlc.cleanup(r)
    if r.violation or (r.error and not hs): ctx.infra_fail("TrackSim: %s %s" % (r.violation, (r.error or "")[:600]))
    out = []; seen = set()
    for h in hs:
        h = h.replace('\\"', '"')
        j = json.loads(h)
        key = json.dumps(j[:14])
        if key in seen: continue
        seen.add(key); out.append((MC_CFG, j))
        if len(out) >= (80 if thorough else 12): break
    return out


def alphabet(ctx):
    """every element of TrackMC's uplink and command alphabets as single events (TLC prints them)"""
    out = []
    for mu, mc in ((1, 0), (0, 1)):
        r = tlc.run("TrackMC.tla", "_a.cfg", workers=1, timeout=300, extra_files={"_a.cfg": mc_cfg_text(mu, mc, 1, sim=True)})
        hs = re.findall(r'"HIST", "(.*)"', r.out); tlc.cleanup(r)
        if r.error and not hs: ctx.infra_fail("TrackMC alphabet: " + r.error[:600])
        for h in hs:
            j = json.loads(h.replace('\\"', '"'))
            if len(j) == 1: out.append(j[0])
    return out
