---------------------------- MODULE NodeFlowConc ----------------------------
(***************************************************************************)
(* The send path at lock-acquisition granularity (C05, C01/C03 under       *)
(* concurrency).  One action per critical section of the C code:           *)
(*                                                                         *)
(*   Variant = "split"  (pinned code)                                      *)
(*      S1  lock(node) seq := next++            unlock(node)               *)
(*      S2  lock(node) admit or hold            unlock(node)               *)
(*      S3  lock(buf)  append                   unlock(buf)   (if admitted)*)
(*   Variant = "single" (after the fix)                                    *)
(*      N   lock(node) seq := next++ ; admit or hold                       *)
(*      B   lock(buf)  append  unlock(buf) unlock(node)       (if admitted)*)
(*   receiver, for an answer from node n:                                  *)
(*      R   lock(node) free budget; for every released message             *)
(*      RB     lock(buf) append unlock(buf)            (node still locked) *)
(*      RE  unlock(node)                                                   *)
(*   flusher (auto-flush thread / bidib_flush):                            *)
(*      F   lock(buf) wire := wire \o buf  unlock(buf)                     *)
(*                                                                         *)
(* A thread waiting for a lock simply has its action disabled.             *)
(***************************************************************************)
EXTENDS Naturals, Sequences, SequencesExt, FiniteSets, TLC

CONSTANTS Threads,      \* sender thread ids (naturals)
          Plan,         \* Plan[t] = sequence of [n |-> node, sz |-> response size] the thread sends
          Nodes, Limit, InitSeq, MaxAnswers, Variant

VARIABLES pc,           \* pc[t] \in {"idle", "s2", "s3", "b", "done"}
          ix,           \* ix[t] = index of the send in progress / next
          cur,          \* cur[t] = message being sent [n, seq, sz, t, k]
          nseq, used, held,   \* per node: next number, budget in use, held messages
          nodeLock, bufLock,  \* owner (thread id, "rx", "fl") or "free"
          buf, wire,    \* send buffer, wire (sequences of messages)
          rx,           \* receiver: [pc |-> "idle" | "rb" | "re", n, rel (released, still to buffer)]
          answers       \* answers injected so far

vars == <<pc, ix, cur, nseq, used, held, nodeLock, bufLock, buf, wire, rx, answers>>

Inc(s) == IF s = 255 THEN 1 ELSE s + 1

Init == /\ pc = [t \in Threads |-> "idle"] /\ ix = [t \in Threads |-> 1]
        /\ cur = [t \in Threads |-> [n |-> 0, seq |-> 0, sz |-> 0, t |-> t, k |-> 0]]
        /\ nseq = [n \in Nodes |-> InitSeq] /\ used = [n \in Nodes |-> 0] /\ held = [n \in Nodes |-> <<>>]
        /\ nodeLock = 0 /\ bufLock = 0 /\ buf = <<>> /\ wire = <<>>
        /\ rx = [pc |-> "idle", n |-> 0, rel |-> <<>>] /\ answers = 0

Admit(m) == held[m.n] = <<>> /\ used[m.n] + m.sz <= Limit

(* ---------------- split variant ---------------- *)
S1(t) == /\ Variant = "split" /\ pc[t] = "idle" /\ ix[t] <= Len(Plan[t]) /\ nodeLock = 0
         /\ LET p == Plan[t][ix[t]] IN
            /\ cur' = [cur EXCEPT ![t] = [n |-> p.n, seq |-> nseq[p.n], sz |-> p.sz, t |-> t, k |-> ix[t]]]
            /\ nseq' = [nseq EXCEPT ![p.n] = Inc(@)]
         /\ pc' = [pc EXCEPT ![t] = "s2"]
         /\ UNCHANGED <<ix, used, held, nodeLock, bufLock, buf, wire, rx, answers>>
S2(t) == /\ Variant = "split" /\ pc[t] = "s2" /\ nodeLock = 0
         /\ LET m == cur[t] IN
            IF Admit(m)
            THEN /\ used' = [used EXCEPT ![m.n] = @ + m.sz] /\ pc' = [pc EXCEPT ![t] = "s3"] /\ UNCHANGED <<held, ix>>
            ELSE /\ held' = [held EXCEPT ![m.n] = Append(@, m)] /\ pc' = [pc EXCEPT ![t] = "idle"]
                 /\ ix' = [ix EXCEPT ![t] = @ + 1] /\ UNCHANGED used
         /\ UNCHANGED <<cur, nseq, nodeLock, bufLock, buf, wire, rx, answers>>
S3(t) == /\ Variant = "split" /\ pc[t] = "s3" /\ bufLock = 0
         /\ buf' = Append(buf, cur[t])
         /\ pc' = [pc EXCEPT ![t] = "idle"] /\ ix' = [ix EXCEPT ![t] = @ + 1]
         /\ UNCHANGED <<cur, nseq, used, held, nodeLock, bufLock, wire, rx, answers>>

(* ---------------- single-region variant ---------------- *)
N(t) == /\ Variant = "single" /\ pc[t] = "idle" /\ ix[t] <= Len(Plan[t]) /\ nodeLock = 0
        /\ LET p == Plan[t][ix[t]]
               m == [n |-> p.n, seq |-> nseq[p.n], sz |-> p.sz, t |-> t, k |-> ix[t]]
           IN /\ cur' = [cur EXCEPT ![t] = m]
              /\ nseq' = [nseq EXCEPT ![p.n] = Inc(@)]
              /\ IF Admit(m)
                 THEN /\ used' = [used EXCEPT ![m.n] = @ + m.sz] /\ nodeLock' = t
                      /\ pc' = [pc EXCEPT ![t] = "b"] /\ UNCHANGED <<held, ix>>
                 ELSE /\ held' = [held EXCEPT ![m.n] = Append(@, m)] /\ UNCHANGED <<used, nodeLock, pc>>
                      /\ ix' = [ix EXCEPT ![t] = @ + 1]
        /\ UNCHANGED <<bufLock, buf, wire, rx, answers>>
B(t) == /\ Variant = "single" /\ pc[t] = "b" /\ bufLock = 0
        /\ buf' = Append(buf, cur[t])
        /\ nodeLock' = 0
        /\ pc' = [pc EXCEPT ![t] = "idle"] /\ ix' = [ix EXCEPT ![t] = @ + 1]
        /\ UNCHANGED <<cur, nseq, used, held, bufLock, wire, rx, answers>>

(* ---------------- receiver ---------------- *)
RECURSIVE Releasable(_, _, _)
Releasable(h, u, acc) == IF h = <<>> \/ u + Head(h).sz > Limit THEN acc ELSE Releasable(Tail(h), u + Head(h).sz, Append(acc, Head(h)))
SumSz(s) == FoldLeft(LAMBDA a, m : a + m.sz, 0, s)

R(n) == /\ rx.pc = "idle" /\ answers < MaxAnswers /\ nodeLock = 0
        /\ LET u0 == 0                      \* an answer (or expiry) frees everything outstanding: the adversarial case for order
               rel == Releasable(held[n], u0, <<>>)
           IN /\ used' = [used EXCEPT ![n] = u0 + SumSz(rel)]
              /\ held' = [held EXCEPT ![n] = SubSeq(@, Len(rel) + 1, Len(@))]
              /\ rx' = [pc |-> IF rel = <<>> THEN "re" ELSE "rb", n |-> n, rel |-> rel]
        /\ nodeLock' = 100 /\ answers' = answers + 1
        /\ UNCHANGED <<pc, ix, cur, nseq, bufLock, buf, wire>>
RB == /\ rx.pc = "rb" /\ bufLock = 0
      /\ buf' = Append(buf, Head(rx.rel))
      /\ rx' = [rx EXCEPT !.rel = Tail(@), !.pc = IF Len(rx.rel) = 1 THEN "re" ELSE "rb"]
      /\ UNCHANGED <<pc, ix, cur, nseq, used, held, nodeLock, bufLock, wire, answers>>
RE == /\ rx.pc = "re"
      /\ nodeLock' = 0 /\ rx' = [pc |-> "idle", n |-> 0, rel |-> <<>>]
      /\ UNCHANGED <<pc, ix, cur, nseq, used, held, bufLock, buf, wire, answers>>

F == /\ bufLock = 0 /\ buf # <<>>
     /\ wire' = wire \o buf /\ buf' = <<>>
     /\ UNCHANGED <<pc, ix, cur, nseq, used, held, nodeLock, bufLock, rx, answers>>

Next == \/ \E t \in Threads : S1(t) \/ S2(t) \/ S3(t) \/ N(t) \/ B(t)
        \/ \E n \in Nodes : R(n)
        \/ RB \/ RE \/ F
Spec == Init /\ [][Next]_vars

(* ---------------- properties ---------------- *)
Out == wire \o buf            \* transmission order: the buffer is flushed in order
ForN(s, n) == SelectSeq(s, LAMBDA m : m.n = n)
SeqConsecutive == \A n \in Nodes : LET w == ForN(Out, n) IN
                     \A i \in 1..Len(w) : w[i].seq = (IF i = 1 THEN InitSeq ELSE Inc(w[i-1].seq))
(* every message is transmitted at most once; at quiescence every message is either transmitted or held *)
NoDup == \A i, j \in 1..Len(Out) : i # j => <<Out[i].t, Out[i].k>> # <<Out[j].t, Out[j].k>>
Quiescent == /\ \A t \in Threads : pc[t] = "idle" /\ ix[t] > Len(Plan[t])
             /\ rx.pc = "idle"
AllAccounted == Quiescent =>
    \A t \in Threads : \A k \in 1..Len(Plan[t]) :
        (\E i \in 1..Len(Out) : Out[i].t = t /\ Out[i].k = k) \/ (\E n \in Nodes : \E i \in 1..Len(held[n]) : held[n][i].t = t /\ held[n][i].k = k)
(* held messages keep the order of their numbers, and are older than nothing already transmitted later *)
HeldInOrder == \A n \in Nodes : \A i \in 1..(Len(held[n]) - 1) : held[n][i+1].seq = Inc(held[n][i].seq)
BudgetOk == \A n \in Nodes : used[n] <= Limit
=============================================================================
