------------------------------- MODULE TrackMC -------------------------------
(***************************************************************************)
(* Bounded exhaustive model of the Track layer over one small but complete *)
(* configuration: two boards (interface with track output + booster, and   *)
(* an occupancy/accessory board below it), one board configured but absent,*)
(* three segments, two trains (functions in one group and across groups),  *)
(* accessories of every kind.  Events: uplink messages from an alphabet    *)
(* with boundary field values (known / unknown node, number, address) and  *)
(* every high-level command over known / unknown / disconnected equipment. *)
(* Checked: C08 (TrainsAgree), C09 command laws (CmdLaws), type            *)
(* correctness, "messages about unknown things change nothing".           *)
(* hist is a ghost history (hidden by VIEW); with -simulate the histories  *)
(* are printed and replayed against the real library.                      *)
(***************************************************************************)
EXTENDS Track, TLC, Json

CONSTANTS MaxUp, MaxCmd, SimDepth

MCcfg ==
  [boards |-> << [id |-> "bA", uid |-> <<146, 0, 13, 1, 2, 3, 4>>, features |-> << [num |-> 3, val |-> 1] >>],
                 [id |-> "bB", uid |-> <<64, 0, 13, 5, 6, 7, 8>>, features |-> <<>>],
                 [id |-> "bC", uid |-> <<16, 0, 13, 9, 9, 9, 9>>, features |-> <<>>] >>,
   track |-> << [id |-> "bB",
                 pb |-> << [id |-> "p1", num |-> 2, aspects |-> << [id |-> "n", val |-> 1], [id |-> "r", val |-> 0] >>, initial |-> "n"] >>,
                 sb |-> << [id |-> "s1", num |-> 16, aspects |-> << [id |-> "g", val |-> 2], [id |-> "rd", val |-> 0] >>, initial |-> ""] >>,
                 pd |-> <<>>, sd |-> <<>>,
                 per |-> << [id |-> "l1", num |-> 0, p0 |-> 35, p1 |-> 1, aspects |-> << [id |-> "on", val |-> 1], [id |-> "off", val |-> 0] >>, initial |-> ""] >>,
                 seg |-> << [id |-> "g1", addr |-> 0], [id |-> "g2", addr |-> 1], [id |-> "g3", addr |-> 9] >>,
                 rev |-> << [id |-> "rv", cv |-> <<51, 48>>] >>],
                [id |-> "bA",
                 pb |-> <<>>, sb |-> <<>>,
                 pd |-> << [id |-> "d1", al |-> 34, ah |-> 17, ext |-> 0,
                            aspects |-> << [id |-> "n", ports |-> << [port |-> 0, val |-> 1], [port |-> 1, val |-> 0] >>],
                                           [id |-> "r", ports |-> << [port |-> 0, val |-> 0], [port |-> 1, val |-> 1] >>] >>, initial |-> ""] >>,
                 sd |-> <<>>, per |-> <<>>, seg |-> <<>>, rev |-> <<>>],
                [id |-> "bC", pb |-> <<>>, sb |-> <<>>, pd |-> <<>>, sd |-> <<>>, per |-> <<>>,
                 seg |-> << [id |-> "g9", addr |-> 0] >>, rev |-> <<>>] >>,
   trains |-> << [id |-> "t1", al |-> 35, ah |-> 1, steps |-> 28, cal |-> <<5, 15, 30, 45, 60, 75, 90, 105, 126>>,
                  per |-> << [id |-> "f0", bit |-> 0, initial |-> -1], [id |-> "f4", bit |-> 4, initial |-> 1], [id |-> "f9", bit |-> 9, initial |-> -1] >>],
                 [id |-> "t2", al |-> 2, ah |-> 3, steps |-> 126, cal |-> <<>>,
                  per |-> << [id |-> "h24", bit |-> 24, initial |-> -1], [id |-> "h31", bit |-> 31, initial |-> -1], [id |-> "h16", bit |-> 16, initial |-> -1],
                              [id |-> "h23", bit |-> 23, initial |-> -1], [id |-> "h8", bit |-> 8, initial |-> -1], [id |-> "h11", bit |-> 11, initial |-> -1],
                              [id |-> "h12", bit |-> 12, initial |-> -1], [id |-> "h15", bit |-> 15, initial |-> -1] >>] >>]

MCpaths == [b \in {"bA", "bB"} |-> IF b = "bA" THEN <<>> ELSE <<1>>]

(* uplink alphabet: [n, ty, d] *)
NA == <<>>  NB == <<1>>  NX == <<7>>
UpMsgs ==
    {[n |-> n, ty |-> MSG_BM_OCC, d |-> <<k>>] : n \in {NB, NX}, k \in {0, 1, 5}}
    \cup {[n |-> NB, ty |-> MSG_BM_FREE, d |-> <<k>>] : k \in {0, 1}}
    \cup {[n |-> NB, ty |-> MSG_BM_MULTIPLE, d |-> <<0, 16, b, c>>] : b \in {0, 3}, c \in {0, 2}}
    \cup {[n |-> NB, ty |-> MSG_BM_ADDRESS, d |-> d] : d \in {<<0, 35, 1>>, <<0, 35, 129>>, <<1, 35, 1, 2, 3>>, <<1, 2, 131>>, <<0, 0, 0>>, <<1>>,
                                                           <<9, 35, 65>>, <<0, 99, 1>>, <<5, 35, 1>>}}
    \cup {[n |-> NA, ty |-> MSG_BM_ADDRESS, d |-> <<0, 35, 1>>]}
    \* a range that ends with the last detector (SecAck board: mirrored like any other); error reports without a parameter byte
    \cup {[n |-> NA, ty |-> MSG_BM_MULTIPLE, d |-> <<248, 8, 129>>]}
    \cup {[n |-> n, ty |-> MSG_SYS_ERROR, d |-> <<c>>] : n \in {NA, NB}, c \in {33, 48}}
    \cup {[n |-> NB, ty |-> MSG_BM_CURRENT, d |-> <<0, v>>] : v \in {0, 15, 16, 63, 64, 127, 128, 191, 192, 250, 251, 254, 255}}
    \cup {[n |-> NB, ty |-> MSG_BM_CONFIDENCE, d |-> <<1, 0, 7>>]}
    \cup {[n |-> NB, ty |-> MSG_BM_SPEED, d |-> <<35, 1, 44, 1>>], [n |-> NB, ty |-> MSG_BM_SPEED, d |-> <<36, 1, 44, 1>>]}
    \cup {[n |-> NB, ty |-> MSG_BM_DYN_STATE, d |-> <<0, 35, 1, k, 200>>] : k \in {1, 2, 6}}
    \cup {[n |-> NA, ty |-> MSG_BOOST_STAT, d |-> <<v>>] : v \in {0, 1, 128, 131}}
    \cup {[n |-> NA, ty |-> MSG_BOOST_DIAGNOSTIC, d |-> d] : d \in {<<0, 17, 1, 251, 2, 255>>, <<1, 0>>, <<2, 1, 0, 254>>}}
    \cup {[n |-> n, ty |-> MSG_CS_STATE, d |-> <<3>>] : n \in {NA, NB}}
    \cup {[n |-> NA, ty |-> MSG_CS_DRIVE_ACK, d |-> <<35, 1, 1>>]}
    \cup {[n |-> NA, ty |-> MSG_CS_DRIVE_MANUAL, d |-> d] : d \in {<<35, 1, 2, 3, 140, 17, 2, 0, 0>>, <<35, 1, 2, 0, 0, 0, 0, 0, 0>>, <<35, 1, 2, 4, 0, 0, 2, 0, 0>>}}
    \* manual drive reports for t2 (functions on the first and last bit of every group): one group valid at a time, all of
    \* its functions on / off - a report that marks one group valid must leave the neighbouring groups alone
    \cup {[n |-> NA, ty |-> MSG_CS_DRIVE_MANUAL, d |-> <<2, 3, 3, m, 0, f, f, f, f>>] : m \in {8, 16, 32}, f \in {0, 255}}
    \cup {[n |-> NA, ty |-> MSG_CS_DRIVE_MANUAL, d |-> <<2, 3, 3, 48, 0, 255, 255, 255, 255>>], [n |-> NA, ty |-> MSG_CS_DRIVE_MANUAL, d |-> <<2, 3, 3, 63, 0, 0, 0, 0, 0>>]}
    \cup {[n |-> NA, ty |-> MSG_CS_ACCESSORY_ACK, d |-> <<34, 17, 2>>], [n |-> NB, ty |-> MSG_CS_ACCESSORY_ACK, d |-> <<34, 17, 2>>]}
    \cup {[n |-> NA, ty |-> MSG_CS_ACCESSORY_MANUAL, d |-> <<34, 17, 33>>]}
    \cup {[n |-> NB, ty |-> MSG_LC_STAT, d |-> <<35, 1, v>>] : v \in {0, 1, 9}}
    \cup {[n |-> NB, ty |-> MSG_LC_WAIT, d |-> <<35, 1, 130>>], [n |-> NB, ty |-> MSG_LC_STAT, d |-> <<36, 1, 1>>]}
    \cup {[n |-> NB, ty |-> MSG_ACCESSORY_STATE, d |-> d] : d \in {<<2, 1, 2, 0, 0>>, <<2, 7, 2, 1, 20>>, <<16, 2, 2, 128, 5>>, <<3, 1, 2, 0, 0>>}}
    \cup {[n |-> NB, ty |-> MSG_ACCESSORY_NOTIFY, d |-> <<2, 0, 2, 0, 0>>]}
    \cup {[n |-> NB, ty |-> MSG_VENDOR, d |-> d] : d \in {<<2, 51, 48, 1, 51>>, <<2, 51, 48, 1, 48>>, <<2, 51, 49, 1, 51>>}}
    \cup {[n |-> NA, ty |-> MSG_NODE_LOST, d |-> <<2, 1, 64, 0, 13, 5, 6, 7, 8>>], [n |-> NA, ty |-> MSG_NODE_NEW, d |-> <<3, 2, 64, 0, 13, 5, 6, 7, 8>>],
          [n |-> NA, ty |-> MSG_NODE_NEW, d |-> <<4, 3, 16, 0, 13, 9, 9, 9, 9>>], [n |-> NA, ty |-> MSG_NODE_NEW, d |-> <<5, 4, 1, 1, 1, 1, 1, 1, 1>>]}
    \cup {[n |-> NB, ty |-> MSG_BM_POSITION, d |-> <<35, 1, 0, 7, 8>>], [n |-> NA, ty |-> MSG_BM_POSITION, d |-> <<35, 1, 0, 7, 8>>]}
    \cup {[n |-> NA, ty |-> MSG_SYS_ERROR, d |-> <<1, 0>>], [n |-> NA, ty |-> MSG_SYS_PONG, d |-> <<1>>], [n |-> NB, ty |-> MSG_FEATURE, d |-> <<1, 1>>],
          [n |-> NA, ty |-> MSG_CS_DRIVE_EVENT, d |-> <<1, 0>>], [n |-> NA, ty |-> MSG_CS_DRIVE_EVENT, d |-> <<0, 0>>]}

K(fn, s, i) == [fn |-> fn, s |-> s, i |-> i]
Cmds ==
    \* "nx", "rd2", "onn", "p11": names that extend a defined name (undefined all the same)
    {K("bidib_switch_point", <<p, a>>, 0) : p \in {"p1", "d1", "s1", "zz", "p11"}, a \in {"n", "r", "zz", "nx"}}
    \cup {K("bidib_set_signal", <<"s1", a>>, 0) : a \in {"g", "n", "rd2"}}
    \cup {K("bidib_set_peripheral", <<p, a>>, 0) : p \in {"l1", "zz"}, a \in {"on", "zz", "onn"}}
    \cup {K("bidib_set_train_speed", <<t, o>>, v) : t \in {"t1", "zz"}, o \in {"bA", "bB", "bC"}, v \in {-127, -126, -1, 0, 1, 126, 127}}
    \cup {K("bidib_set_calibrated_train_speed", <<t, "bA">>, v) : t \in {"t1", "t2"}, v \in {-10, -9, 0, 1, 9}}
    \cup {K("bidib_emergency_stop_train", <<"t1", o>>, 0) : o \in {"bA", "zz"}}
    \cup {K("bidib_set_train_peripheral", <<"t1", f, o>>, v) : f \in {"f0", "f4", "f9", "zz"}, o \in {"bA", "bB"}, v \in {0, 1, 2}}
    \cup {K("bidib_set_train_peripheral", <<"t2", f, "bA">>, v) : f \in {"h24", "h31", "h16", "h23", "h8", "h11", "h12", "h15"}, v \in {0, 1}}
    \cup {K("bidib_set_booster_power_state", <<b>>, v) : b \in {"bA", "bB", "zz"}, v \in {0, 1}}
    \cup {K("bidib_set_track_output_state", <<b>>, v) : b \in {"bA", "bB"}, v \in {0, 3, 8}}
    \cup {K("bidib_set_track_output_state_all", <<>>, 3)}
    \cup {K("bidib_request_reverser_state", <<r, "bB">>, 0) : r \in {"rv", "zz"}}
    \cup {K("bidib_ping", <<b>>, 7) : b \in {"bA", "bC"}}

VARIABLES ts, cnt, last, hist
mcv == <<ts, cnt, last, hist>>

MCInit == /\ ts = StartState(MCcfg, MCpaths).ts
          /\ cnt = [up |-> 0, cmd |-> 0]
          /\ last = [k |-> "init"]
          /\ hist = <<>>

MCUp(m) == /\ cnt.up < MaxUp
           /\ LET r == Up(MCcfg, ts, m.n, m.ty, m.d) IN
              /\ ts' = r.ts
              /\ last' = [k |-> "up", m |-> m, pre |-> ts, out |-> r.out, q |-> r.q]
           /\ cnt' = [cnt EXCEPT !.up = @ + 1]
           /\ hist' = Append(hist, [e |-> "up", n |-> m.n, ty |-> m.ty, d |-> m.d, fn |-> "", s |-> <<>>, i |-> 0])
MCCmd(k) == /\ cnt.cmd < MaxCmd
            /\ LET r == Cmd(MCcfg, ts, k) IN
               /\ ts' = r.ts
               /\ last' = [k |-> "cmd", c |-> k, pre |-> ts, out |-> r.out, ret |-> r.ret]
            /\ cnt' = [cnt EXCEPT !.cmd = @ + 1]
            /\ hist' = Append(hist, [e |-> "hl", n |-> <<>>, ty |-> 0, d |-> <<>>, fn |-> k.fn, s |-> k.s, i |-> k.i])
MCNext == (\E m \in UpMsgs : MCUp(m)) \/ (\E k \in Cmds : MCCmd(k))
MCSpec == MCInit /\ [][MCNext]_mcv
View == <<ts, cnt, last>>

(* ---- invariants *)
TypeOk == TypeOkTs(MCcfg, ts)
TrainsAgree == TrainAgreesWithSegments(MCcfg, ts)

(* a free report leaves no address in the segment (C08) *)
FreeClears == last.k = "up" /\ last.m.ty = MSG_BM_FREE =>
                 LET s == SegByNum(MCcfg, Sender(MCcfg, last.pre, last.m.n), last.m.d[1]) IN s # "" => ts.seg[s].addrs = <<>> /\ ts.seg[s].occ = 0

(* messages from nodes that are not connected boards change nothing (C07) *)
UnknownNoEffect == last.k = "up" /\ Sender(MCcfg, last.pre, last.m.n) = "" /\ last.m.ty \notin {MSG_NODE_NEW, MSG_NODE_LOST,
                        MSG_BM_SPEED, MSG_BM_DYN_STATE, MSG_CS_DRIVE_ACK, MSG_CS_DRIVE_MANUAL} => ts = last.pre

(* C09 command laws *)
CmdLaws == last.k = "cmd" =>
    /\ last.ret \in {0, 1}
    /\ last.ret = 1 => last.out = <<>> /\ ts = last.pre                        \* error: nothing submitted, state unchanged
    /\ \A j \in DOMAIN last.out :                                             \* only connected boards are ever addressed, at their current address
          \E b \in BoardIds(MCcfg) : last.pre.conn[b] = 1 /\ last.pre.addr[b] = last.out[j].n
    /\ \A j \in DOMAIN last.out : last.out[j].ty < 128 /\ \A x \in DOMAIN last.out[j].data : last.out[j].data[x] \in 0..255
    /\ (last.c.fn = "bidib_set_train_speed" /\ last.ret = 0) =>
          LET t == last.c.s[1] IN                                             \* speed byte round trip, direction kept at 0
          /\ ts.trn[t].spd = last.c.i
          /\ last.c.i > 0 => ts.trn[t].fwd = 1
          /\ last.c.i < 0 => ts.trn[t].fwd = 0
          /\ last.c.i = 0 => ts.trn[t].fwd = last.pre.trn[t].fwd
          /\ DccToLib(last.out[1].data[5]) = last.c.i
    /\ (last.c.fn = "bidib_set_train_peripheral" /\ last.ret = 0) =>
          LET t == last.c.s[1]  f == last.c.s[2] IN                           \* the commanded bit changes, every other function is preserved,
          /\ ts.trn[t].per[f] = last.c.i                                      \* and the message carries exactly the tracked bits of its group
          /\ \A g \in DOMAIN ts.trn[t].per : g # f => ts.trn[t].per[g] = last.pre.trn[t].per[g]
          /\ LET tr == Train(MCcfg, t)  m == last.out[1].data
                 p == [f1 |-> m[6], f2 |-> m[7], f3 |-> m[8], f4 |-> m[9]]
             IN \A x \in RangeS(tr.per) : Bit(m[4], GroupOf(x.bit)) = 1 => FnBit(p, x.bit) = ts.trn[t].per[x.id]

Emit == Len(hist) < SimDepth \/ PrintT(<<"HIST", ToJson(hist)>>)
=============================================================================
