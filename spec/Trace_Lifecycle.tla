--------------------------- MODULE Trace_Lifecycle ---------------------------
(***************************************************************************)
(* Trace validation of session sequences (C16): return values, running     *)
(* flag, thread creation / joins (from the wrapped pthread_create / join),  *)
(* and the globals a session works with, against Lifecycle.                *)
(* Events: proc (new process) / start cfg debug flush works ret running thr seq discard / stop running thr / cap c *)
(***************************************************************************)
EXTENDS Lifecycle, Bytes, Json, IOUtils, TLC

VARIABLE l
tlv == <<running, handles, threads, badjoins, glob, sess, l>>
Tr == ndJsonDeserialize(IOEnv.TRACE)
Ev == Tr[l]
IsEv(k) == l <= Len(Tr) /\ Tr[l].e = k /\ l' = l + 1

Count(th, v) == Cardinality({i \in DOMAIN th : th[i] = v})
(* thr = [created, joined, stale, live] as counted by the pthread wrappers since process start *)
ThrOk(o) == /\ o.created = Len(threads') /\ o.joined = Count(threads', "joined") /\ o.live = Count(threads', "live")
            /\ o.stale = badjoins'

(* a start that fails may already have switched track outputs on (the configuration error is noticed after the boards
   were read and the interface answered): the library stops again before it returns, so for every node that was sent
   MSG_CS_SET_STATE(GO) during the call the LAST state it was sent is OFF *)
CsSetState == 98
SafeAfterFailedStart(w) ==
    IF w = <<>> THEN TRUE
    ELSE /\ WireWellFormed(w)
         /\ LET F == Flatten(WirePackets(w))
                ms == [i \in 1..Len(F) |-> ParseMsg(F[i])]
                cs == SelectSeq(ms, LAMBDA m : m.ty = CsSetState /\ Len(m.data) >= 1)
            IN \A i \in 1..Len(cs) : cs[i].data[1] = 3 =>
                  \E j \in (i + 1)..Len(cs) : /\ cs[j].addr = cs[i].addr /\ cs[j].data[1] = 0
                                               /\ \A k \in (j + 1)..Len(cs) : cs[k].addr # cs[i].addr
TProc == IsEv("proc") /\ running' = FALSE /\ handles' = [rx |-> 0, af |-> 0, hb |-> 0] /\ threads' = << >> /\ badjoins' = 0 /\ glob' = Glob0 /\ sess' = 0
TStart == /\ IsEv("start")
          /\ Start(Ev.cfg, Ev.debug, Ev.flush, Ev.works, Ev.ret)
          /\ Ev.running = running'
          /\ ThrOk(Ev.thr)
          /\ running' => (Ev.seq = glob'.seqOn /\ Ev.discard = glob'.discard)
          /\ Ev.ret = 1 => SafeAfterFailedStart(Ev.w)
TStartSerial == /\ IsEv("startserial")
                /\ StartSerial(Ev.dev, Ev.cfg, Ev.ret)
                /\ Ev.running = running'
                /\ ThrOk(Ev.thr)
TStop == /\ IsEv("stop")
         /\ Stop
         /\ Ev.running = running'
         /\ ThrOk(Ev.thr)
TCap == IsEv("cap") /\ Capacity(Ev.c)
TNext == TProc \/ TStart \/ TStartSerial \/ TStop \/ TCap
TSpec == LInit /\ l = 1 /\ [][TNext]_tlv
TraceAccepted == TLCGet("stats").diameter - 1 = Len(Tr)
NotAccepted == l <= Len(Tr)
=============================================================================
