/*
 * wrap.c - link-time interposition of the pthread functions the library uses
 * (-Wl,--wrap=...), lock trace, thread bookkeeping and the baton scheduler.
 *
 * Library locks are recognised by address: all 15 lock objects are extern globals.
 */
#define _GNU_SOURCE
#include <string.h>
#include <stdlib.h>
#include <pthread.h>
#include <dlfcn.h>
#include <errno.h>
#include <time.h>
#include "vdrv.h"

extern int __real_pthread_mutex_lock(pthread_mutex_t *);
extern int __real_pthread_mutex_unlock(pthread_mutex_t *);
extern int __real_pthread_mutex_init(pthread_mutex_t *, const pthread_mutexattr_t *);
extern int __real_pthread_rwlock_rdlock(pthread_rwlock_t *);
extern int __real_pthread_rwlock_wrlock(pthread_rwlock_t *);
extern int __real_pthread_rwlock_unlock(pthread_rwlock_t *);
extern int __real_pthread_rwlock_init(pthread_rwlock_t *, const pthread_rwlockattr_t *);
extern int __real_pthread_create(pthread_t *, const pthread_attr_t *, void *(*)(void *), void *);
extern int __real_pthread_join(pthread_t, void **);

extern pthread_rwlock_t bidib_trains_rwlock, bidib_boards_rwlock;
extern pthread_mutex_t trackstate_accessories_mutex, trackstate_peripherals_mutex, trackstate_segments_mutex,
	trackstate_reversers_mutex, trackstate_trains_mutex, trackstate_boosters_mutex, trackstate_track_outputs_mutex,
	bidib_node_state_table_mutex, bidib_send_buffer_mutex, bidib_uplink_queue_mutex, bidib_uplink_error_queue_mutex,
	bidib_uplink_intern_queue_mutex, bidib_action_id_mutex;

#define NLOCKS 15
static const struct { void *addr; const char *name; } LK[NLOCKS] = {
	{ &bidib_trains_rwlock, "trains_rw" }, { &bidib_boards_rwlock, "boards_rw" },
	{ &trackstate_accessories_mutex, "ts_accessories" }, { &trackstate_peripherals_mutex, "ts_peripherals" },
	{ &trackstate_segments_mutex, "ts_segments" }, { &trackstate_reversers_mutex, "ts_reversers" },
	{ &trackstate_trains_mutex, "ts_trains" }, { &trackstate_boosters_mutex, "ts_boosters" },
	{ &trackstate_track_outputs_mutex, "ts_track_outputs" }, { &bidib_node_state_table_mutex, "node_table" },
	{ &bidib_send_buffer_mutex, "send_buffer" }, { &bidib_uplink_queue_mutex, "uplink_q" },
	{ &bidib_uplink_error_queue_mutex, "uplink_err_q" }, { &bidib_uplink_intern_queue_mutex, "uplink_int_q" },
	{ &bidib_action_id_mutex, "action_id" },
};

static int lock_id(void *p) {
	for (int i = 0; i < NLOCKS; i++) if (LK[i].addr == p) return i;
	return -1;
}

/* -------------------------------------------------------- thread registry */

#define MAXTHR 128
typedef struct {
	pthread_t handle; bool used; bool live; int joins; char name[48];
} threc;
static threc thr[MAXTHR]; static int n_thr = 0;
static int stale_joins = 0, creates = 0, joins_ok = 0;
static pthread_mutex_t reg_mu = PTHREAD_MUTEX_INITIALIZER;
static __thread int my_idx = -1;         /* -1: not created through the wrapper (main / script thread) */

typedef struct { void *(*fn)(void *); void *arg; int idx; } tramp;

static void sched_thread_begin(int idx);
static void sched_thread_end(int idx);

static void *trampoline(void *p) {
	tramp t = *(tramp *) p; free(p);
	my_idx = t.idx;
	sched_thread_begin(t.idx);
	void *r = t.fn(t.arg);
	sched_thread_end(t.idx);
	return r;
}

int __wrap_pthread_create(pthread_t *h, const pthread_attr_t *a, void *(*fn)(void *), void *arg) {
	Dl_info di; const char *nm = "?";
	if (dladdr((void *) fn, &di) && di.dli_sname) nm = di.dli_sname;
	__real_pthread_mutex_lock(&reg_mu);
	int idx = n_thr < MAXTHR ? n_thr++ : MAXTHR - 1;
	thr[idx].used = true; thr[idx].live = true; thr[idx].joins = 0;
	strncpy(thr[idx].name, nm, sizeof thr[idx].name - 1);
	creates++;
	__real_pthread_mutex_unlock(&reg_mu);
	tramp *t = malloc(sizeof *t); t->fn = fn; t->arg = arg; t->idx = idx;
	int r = __real_pthread_create(h, a, trampoline, t);
	__real_pthread_mutex_lock(&reg_mu);
	thr[idx].handle = *h;
	__real_pthread_mutex_unlock(&reg_mu);
	return r;
}

static void sched_before_join(int idx);

int __wrap_pthread_join(pthread_t h, void **ret) {
	int found = -1;
	__real_pthread_mutex_lock(&reg_mu);
	for (int i = n_thr - 1; i >= 0; i--) if (thr[i].used && pthread_equal(thr[i].handle, h)) { found = i; break; }
	if (found < 0 || !thr[found].live) {
		/* joining a handle that is not a live, un-joined thread is undefined behaviour: record it, do not execute it */
		stale_joins++;
		__real_pthread_mutex_unlock(&reg_mu);
		return ESRCH;
	}
	__real_pthread_mutex_unlock(&reg_mu);
	sched_before_join(found);
	int r = __real_pthread_join(h, ret);
	__real_pthread_mutex_lock(&reg_mu);
	thr[found].live = false; thr[found].joins++; joins_ok++;
	__real_pthread_mutex_unlock(&reg_mu);
	return r;
}

void out_thr(void) {
	__real_pthread_mutex_lock(&reg_mu);
	int live = 0;
	for (int i = 0; i < n_thr; i++) if (thr[i].live) live++;
	fprintf(vout, ",\"thr\":{\"created\":%d,\"joined\":%d,\"stale_joins\":%d,\"live\":%d,\"list\":[", creates, joins_ok, stale_joins, live);
	for (int i = 0; i < n_thr; i++) {
		if (i) fputc(',', vout);
		fprintf(vout, "[\"%s\",%d,%d]", thr[i].name, thr[i].live ? 1 : 0, thr[i].joins);
	}
	fputs("]}", vout);
	__real_pthread_mutex_unlock(&reg_mu);
}

/* ------------------------------------------------------------- lock trace */

typedef struct { int16_t thr; int8_t lock; char op; uintptr_t caller; } lkev;   /* op: m r w (acquired) u (released) */
#define LKMAX (1 << 20)
static lkev *lkev_buf = NULL; static size_t lkev_n = 0; static bool lk_trace = false; static size_t lkev_dropped = 0;
static pthread_mutex_t lk_mu = PTHREAD_MUTEX_INITIALIZER;
static uintptr_t exe_base = 0;

void lock_trace_enable(bool on) {
	__real_pthread_mutex_lock(&lk_mu);
	if (on && !lkev_buf) lkev_buf = malloc(sizeof(lkev) * LKMAX);
	if (on && !exe_base) { Dl_info di; if (dladdr((void *) lock_trace_enable, &di)) exe_base = (uintptr_t) di.dli_fbase; }
	lk_trace = on;
	__real_pthread_mutex_unlock(&lk_mu);
}

static int tid_now(void) { return my_idx < 0 ? -1 : my_idx; }
static __thread int script_tid = 0;   /* script threads: 0 = main, 1.. = threads of a "threads" block, reported as -(1+k) */
void wrap_set_script_tid(int k) { script_tid = k; }

static void rec(int lock, char op, void *caller) {
	if (!lk_trace) return;
	__real_pthread_mutex_lock(&lk_mu);
	if (lkev_n < LKMAX) {
		lkev_buf[lkev_n].thr = (int16_t) (my_idx >= 0 ? my_idx : -(1 + script_tid));
		lkev_buf[lkev_n].lock = (int8_t) lock; lkev_buf[lkev_n].op = op;
		lkev_buf[lkev_n].caller = (uintptr_t) caller - exe_base;
		lkev_n++;
	} else lkev_dropped++;
	__real_pthread_mutex_unlock(&lk_mu);
}

/* prints ,"locks":[[thr,"op","lock",calleroffset],..] and clears */
void out_locks(void) {
	__real_pthread_mutex_lock(&lk_mu);
	fprintf(vout, ",\"dropped\":%zu,\"locks\":[", lkev_dropped);
	for (size_t i = 0; i < lkev_n; i++) {
		if (i) fputc(',', vout);
		fprintf(vout, "[%d,\"%c\",\"%s\",%lu]", lkev_buf[i].thr, lkev_buf[i].op, LK[lkev_buf[i].lock].name, (unsigned long) lkev_buf[i].caller);
	}
	fputc(']', vout);
	lkev_n = 0; lkev_dropped = 0;
	__real_pthread_mutex_unlock(&lk_mu);
}

/* -------------------------------------------------------- baton scheduler */
/* filled in below (sched.inc) */
#include "sched.inc"

/* ------------------------------------------------------------- lock wraps */

int __wrap_pthread_mutex_init(pthread_mutex_t *m, const pthread_mutexattr_t *a) { return __real_pthread_mutex_init(m, a); }
int __wrap_pthread_rwlock_init(pthread_rwlock_t *l, const pthread_rwlockattr_t *a) { return __real_pthread_rwlock_init(l, a); }

int __wrap_pthread_mutex_lock(pthread_mutex_t *m) {
	int id = lock_id(m);
	if (id < 0) return __real_pthread_mutex_lock(m);
	void *ca = __builtin_return_address(0);
	if (sched_on) return sched_acquire(id, 'm', ca);
	int r = __real_pthread_mutex_lock(m);
	rec(id, 'm', ca);
	return r;
}

int __wrap_pthread_mutex_unlock(pthread_mutex_t *m) {
	int id = lock_id(m);
	if (id < 0) return __real_pthread_mutex_unlock(m);
	void *ca = __builtin_return_address(0);
	if (sched_on) return sched_release(id, ca);
	rec(id, 'u', ca);
	return __real_pthread_mutex_unlock(m);
}

int __wrap_pthread_rwlock_rdlock(pthread_rwlock_t *l) {
	int id = lock_id(l);
	if (id < 0) return __real_pthread_rwlock_rdlock(l);
	void *ca = __builtin_return_address(0);
	if (sched_on) return sched_acquire(id, 'r', ca);
	int r = __real_pthread_rwlock_rdlock(l);
	rec(id, 'r', ca);
	return r;
}

int __wrap_pthread_rwlock_wrlock(pthread_rwlock_t *l) {
	int id = lock_id(l);
	if (id < 0) return __real_pthread_rwlock_wrlock(l);
	void *ca = __builtin_return_address(0);
	if (sched_on) return sched_acquire(id, 'w', ca);
	int r = __real_pthread_rwlock_wrlock(l);
	rec(id, 'w', ca);
	return r;
}

int __wrap_pthread_rwlock_unlock(pthread_rwlock_t *l) {
	int id = lock_id(l);
	if (id < 0) return __real_pthread_rwlock_unlock(l);
	void *ca = __builtin_return_address(0);
	if (sched_on) return sched_release(id, ca);
	rec(id, 'u', ca);
	return __real_pthread_rwlock_unlock(l);
}
