----------------------------- MODULE ConfigDoc -----------------------------
(***************************************************************************)
(* Configuration files as documents (C13): a YAML document is a tree of    *)
(* mappings, sequences and scalars; the library's three hand-written       *)
(* parsers walk the event stream of that tree.  This module enumerates     *)
(* every SINGLE-FAULT deviation of a document at every position:           *)
(*   mapping : delete / duplicate / rename a key, move a key to the front  *)
(*             (key order), swap two neighbouring keys, replace the value  *)
(*             by a node of another kind                                   *)
(*   sequence: delete / duplicate an item (duplicate of every id kind),    *)
(*             replace an item by a node of another kind                   *)
(*   scalar  : every wrong value format (empty, not hex, more than a byte, *)
(*             negative, absurdly large, overlong, wrong length for a      *)
(*             unique id), replaced by a sequence / a mapping              *)
(*   document: empty, a bare scalar, a sequence at top level               *)
(* TLC evaluates Mutants(doc) for the documents named by the environment   *)
(* (DOCS = json file with [name, tree]) and writes the mutants as json     *)
(* (OUT); the check renders each one to text and starts the real library   *)
(* with it.  Truncation at every event and byte noise are text-level       *)
(* classes added by the check (a truncated stream is not a tree).          *)
(*                                                                         *)
(* node = [t |-> "m", kv |-> <<[k |-> key, v |-> node], ...>>]             *)
(*      | [t |-> "s", it |-> <<node, ...>>]  |  [t |-> "v", s |-> text]    *)
(***************************************************************************)
EXTENDS Naturals, Sequences, SequencesExt, FiniteSets, Json, IOUtils, TLC

Scalar(s) == [t |-> "v", s |-> s]
EmptyMap == [t |-> "m", kv |-> <<>>]
EmptySeq == [t |-> "s", it |-> <<>>]
OneSeq == [t |-> "s", it |-> <<Scalar("x")>>]
OneMap == [t |-> "m", kv |-> <<[k |-> "x", v |-> Scalar("1")]>>]

DelAt(s, i) == SubSeq(s, 1, i - 1) \o SubSeq(s, i + 1, Len(s))
DupAt(s, i) == SubSeq(s, 1, i) \o <<s[i]>> \o SubSeq(s, i + 1, Len(s))
ToFront(s, i) == <<s[i]>> \o DelAt(s, i)
SwapNext(s, i) == [s EXCEPT ![i] = s[i + 1], ![i + 1] = s[i]]

(* wrong value formats; the class name says what is wrong *)
ScalarFaults == <<[cls |-> "scalar_empty", s |-> ""], [cls |-> "scalar_not_hex", s |-> "0xZZ"], [cls |-> "scalar_word", s |-> "banana"],
                 [cls |-> "scalar_over_byte", s |-> "0x1FF"], [cls |-> "scalar_negative", s |-> "-1"],
                 [cls |-> "scalar_huge", s |-> "99999999999999999999999"], [cls |-> "scalar_huge_hex", s |-> "0xFFFFFFFFFFFFFFFFFFFFFFFF"],
                 [cls |-> "scalar_short_hex", s |-> "0x1"], [cls |-> "scalar_null", s |-> "~"],
                 [cls |-> "scalar_overlong", s |-> "aaaaaaaaaaaaaaaaaaaaaaaaaaaaaaaaaaaaaaaaaaaaaaaaaaaaaaaaaaaaaaaaaaaaaaaaaaaaaaaaaaaaaaaaaaaaaaaaaaaaaaaaaaaaaaaaaaaaaaaaaaaaaaaaaaaaaaaaaaaaaaaaaaaaaaaaaaaaaaaaaaaaaaaaaaaaaaaaaaaaaaaaaaaaaaaaaaaaaaaaaaaaaaaaaaaaaaaaaaaaaaaaaaaaaaaaaaaaaaaaaaaaaaaaaaaaaaaaaaaaaaaaaaaaaaaaaaaaaaaaaaaaaaaaaaaaaaaa"],
                 [cls |-> "scalar_float", s |-> "1.5"], [cls |-> "scalar_decimal_over", s |-> "256"]>>

M(cls, path, n) == [cls |-> cls, path |-> path, n |-> n]

(* ---- duplicates of identifiers and addresses: a scalar takes the value another scalar of the same meaning has ----
   Same meaning = same key at the same kind of position (the path with the sequence indices blanked), e.g. the id of
   another segment, the number of another point of the board, the cv of another reverser; a dcc-address may come from
   any dcc-address of the three files (trains and DCC accessories share one address space). *)
IsIndex(x) == x \in {ToString(i) : i \in 0..64}
Shape(path) == [i \in DOMAIN path |-> IF IsIndex(path[i]) THEN "*" ELSE path[i]]
RECURSIVE ScalarsOf(_, _)
ScalarsOf(n, path) ==
    IF n.t = "v" THEN {[path |-> path, s |-> n.s]}
    ELSE IF n.t = "m" THEN UNION {ScalarsOf(n.kv[i].v, Append(path, n.kv[i].k)) : i \in DOMAIN n.kv}
    ELSE UNION {ScalarsOf(n.it[i], Append(path, ToString(i))) : i \in DOMAIN n.it}
Docs == JsonDeserialize(IOEnv.DOCS)        \* sequence of [name, tree]
AllScalars == UNION {ScalarsOf(Docs[i].tree, <<>>) : i \in DOMAIN Docs}
KeyOf(path) == IF path = <<>> THEN "" ELSE path[Len(path)]
Donors(path, own) == {x.s : x \in {y \in AllScalars : /\ y.s # own
                                                       /\ KeyOf(y.path) = KeyOf(path)
                                                       /\ KeyOf(path) \in {"id", "unique-id", "number", "port", "address", "cv", "dcc-address", "bit", "value"}
                                                       /\ (Shape(y.path) = Shape(path) \/ KeyOf(path) = "dcc-address")}}

RECURSIVE Mut(_, _)
Mut(n, path) ==
    IF n.t = "v" THEN
        {M(ScalarFaults[i].cls, path, Scalar(ScalarFaults[i].s)) : i \in {j \in DOMAIN ScalarFaults : ScalarFaults[j].s # n.s}}
        \cup {M("scalar_to_sequence", path, OneSeq), M("scalar_to_mapping", path, OneMap)}
        \cup {M("scalar_copied", path, Scalar(d)) : d \in Donors(path, n.s)}
    ELSE IF n.t = "m" THEN
        {M("mapping_to_scalar", path, Scalar("x")), M("mapping_to_sequence", path, OneSeq), M("mapping_emptied", path, EmptyMap)}
        \cup UNION {
            LET p == Append(path, n.kv[i].k) IN
            {M("key_deleted", p, [n EXCEPT !.kv = DelAt(@, i)]),
             M("key_duplicated", p, [n EXCEPT !.kv = DupAt(@, i)]),
             M("key_renamed", p, [n EXCEPT !.kv[i].k = "x-" \o @]),
             M("key_to_front", p, [n EXCEPT !.kv = ToFront(@, i)])}
            \cup (IF i < Len(n.kv) THEN {M("keys_swapped", p, [n EXCEPT !.kv = SwapNext(@, i)])} ELSE {})
            \cup {M(m.cls, m.path, [n EXCEPT !.kv[i].v = m.n]) : m \in Mut(n.kv[i].v, p)}
          : i \in DOMAIN n.kv}
    ELSE
        {M("sequence_to_scalar", path, Scalar("x")), M("sequence_to_mapping", path, OneMap), M("sequence_emptied", path, EmptySeq)}
        \cup UNION {
            LET p == Append(path, ToString(i)) IN
            {M("item_deleted", p, [n EXCEPT !.it = DelAt(@, i)]),
             M("item_duplicated", p, [n EXCEPT !.it = DupAt(@, i)])}
            \cup {M(m.cls, m.path, [n EXCEPT !.it[i] = m.n]) : m \in Mut(n.it[i], p)}
          : i \in DOMAIN n.it}

(* [t |-> "v"] mutants of an identical scalar are dropped above; an unchanged tree is never a mutant *)
Mutants(doc) == {m \in Mut(doc, <<>>) : m.n # doc}

(* ---- sanity of the enumeration itself (evaluated by TLC on a small document) ---- *)
Tiny == [t |-> "m", kv |-> <<[k |-> "boards", v |-> [t |-> "s", it |-> <<[t |-> "m", kv |-> <<[k |-> "id", v |-> Scalar("b1")], [k |-> "unique-id", v |-> Scalar("0x00")]>>]>>]]>>]
RECURSIVE Size(_)
Size(n) == IF n.t = "v" THEN 1
           ELSE IF n.t = "m" THEN 1 + (LET RECURSIVE S(_) S(s) == IF s = <<>> THEN 0 ELSE Size(Head(s).v) + S(Tail(s)) IN S(n.kv))
           ELSE 1 + (LET RECURSIVE S(_) S(s) == IF s = <<>> THEN 0 ELSE Size(Head(s)) + S(Tail(s)) IN S(n.it))
ASSUME Size(Tiny) = 5
ASSUME \A m \in Mutants(Tiny) : m.n # Tiny
ASSUME {"key_deleted", "key_duplicated", "key_renamed", "key_to_front", "keys_swapped", "item_deleted",
        "item_duplicated", "scalar_not_hex", "mapping_to_scalar", "sequence_to_mapping"} \subseteq {m.cls : m \in Mutants(Tiny)}
(* every position of the document is hit: each key path and each item index occurs as a mutant path *)
ASSUME {<<"boards">>, <<"boards", "1">>, <<"boards", "1", "id">>, <<"boards", "1", "unique-id">>} \subseteq {m.path : m \in Mutants(Tiny)}

AllMutants == [i \in DOMAIN Docs |-> [name |-> Docs[i].name, mutants |-> SetToSeq(Mutants(Docs[i].tree))]]

VARIABLE done
Init == done = FALSE
Next == /\ ~done
        /\ JsonSerialize(IOEnv.OUT, AllMutants)
        /\ PrintT(<<"MUTANTS", [i \in DOMAIN Docs |-> <<Docs[i].name, Size(Docs[i].tree), Cardinality(Mutants(Docs[i].tree))>>]>>)
        /\ done' = TRUE
Spec == Init /\ [][Next]_done
=============================================================================
