---------------------------- MODULE Trace_Config ----------------------------
(***************************************************************************)
(* Trace validation of starts with generated configurations (C13, C14).    *)
(* Every start of the real library is one event:                           *)
(*   cfgstart judged cfg tree ret running live [st lists aspects]          *)
(*     judged = 1: cfg is a configuration model (valid, or one single-     *)
(*       fault mutation of the C14 statement): the return value must be    *)
(*       0 exactly when Config!Accept(cfg); after acceptance the whole     *)
(*       tracked state is Track!StartState(cfg) and every enumeration      *)
(*       getter reports exactly the declared entities (Config!ListsOk).    *)
(*     judged = 0: the files are a structural / textual mutant (C13):      *)
(*       the start returns 0 or 1; what the files mean is not judged.      *)
(*     In both cases: after 1 the library is stopped and none of its       *)
(*     threads is left; after 0 it runs with its threads.                  *)
(*   stop running live : afterwards stopped, no thread left.               *)
(* A start is only issued while stopped (the script stops an accepted      *)
(* configuration before the next start), so a judged start of the valid    *)
(* configuration after a refused one is the "can be started again" clause: *)
(* it must be accepted AND establish exactly the state of a first start.   *)
(***************************************************************************)
EXTENDS Track, Config, Json, IOUtils, TLC

VARIABLES l, up
cv == <<l, up>>
Tr == ndJsonDeserialize(IOEnv.TRACE)
Ev == Tr[l]
IsEv(k) == l <= Len(Tr) /\ Tr[l].e = k /\ l' = l + 1

CInit == l = 1 /\ up = FALSE

AcceptedOk == LET r == StartState(Ev.cfg, PathsOf(Ev.cfg, Ev.tree)) IN
              /\ Matches(Ev.cfg, r.ts, Ev.st)
              /\ ListsOk(Ev.cfg, r.ts.conn, Ev.lists)
              /\ LookupsOk(Ev.cfg, r.ts.conn, r.ts.addr, Ev.lists)
              /\ AspectListsOk(Ev.cfg, Ev.aspects)

TCfgStart == /\ IsEv("cfgstart")
             /\ ~up
             /\ Ev.ret \in {0, 1}
             /\ IF Ev.ret = 0 THEN Ev.running = 1 /\ Ev.live >= 2 ELSE Ev.running = 0 /\ Ev.live = 0
             /\ IF Ev.judged = 1
                THEN /\ Ev.ret = (IF Accept(Ev.cfg) THEN 0 ELSE 1)
                     /\ IF Ev.ret = 0 THEN AcceptedOk ELSE TRUE
                ELSE TRUE
             /\ up' = (Ev.ret = 0)

TStop == /\ IsEv("stop")
         /\ Ev.running = 0 /\ Ev.live = 0
         /\ up' = FALSE

(* new process *)
TProc == IsEv("proc") /\ up' = FALSE

CNext == TCfgStart \/ TStop \/ TProc
CSpec == CInit /\ [][CNext]_cv
TraceAccepted == TLCGet("stats").diameter - 1 = Len(Tr)
NotAccepted == l <= Len(Tr)
=============================================================================
