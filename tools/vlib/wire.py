"""Independent BiDiB framing codec (written from the protocol rules) used by generators, replays and diagnostics.
Verdicts on wire bytes are taken by the TLA+ Bytes module, not by this file."""
CRC = [0]*256
def _mk():
    for i in range(256):
        c = i
        for _ in range(8):
            c = (c >> 1) ^ 0x8C if c & 1 else c >> 1
        CRC[i] = c
_mk()

def crc8(bs):
    c = 0
    for b in bs: c = CRC[b ^ c]
    return c

def esc(bs):
    out = []
    for b in bs:
        if b in (0xFE, 0xFD): out += [0xFD, b ^ 0x20]
        else: out.append(b)
    return out

def msg(addr, seq, ty, data=()):
    body = list(addr) + [0, seq, ty] + list(data)
    return [len(body)] + body

def packet(msgs):
    payload = [b for m in msgs for b in m]
    return [0xFE] + esc(payload + [crc8(payload)]) + [0xFE]

def hexs(bs): return "".join("%02x" % b for b in bs) if bs else "-"
def unhex(s): return [] if s in ("-", "") else [int(s[i:i+2], 16) for i in range(0, len(s), 2)]

def decode(stream):
    """-> list of packets; each packet = dict(ok=bool, msgs=[dict(addr,seq,ty,data,raw)], raw=[...])"""
    pkts = []; cur = []; 
    frames = []
    for b in stream:
        if b == 0xFE:
            if cur: frames.append(cur)
            cur = []
        else: cur.append(b)
    for f in frames:
        p = []; i = 0
        while i < len(f):
            if f[i] == 0xFD and i + 1 < len(f): p.append(f[i+1] ^ 0x20); i += 2
            elif f[i] == 0xFD: i += 1
            else: p.append(f[i]); i += 1
        ok = len(p) >= 2 and crc8(p) == 0
        ms = []
        if ok:
            q = p[:-1]; i = 0
            while i < len(q):
                l = q[i]
                m = q[i:i+l+1]
                if len(m) < l + 1 or l < 3: ok = False; break
                j = 1; addr = []
                while j < len(m) and m[j] != 0 and len(addr) < 4: addr.append(m[j]); j += 1
                if j + 2 >= len(m) + 0 and j + 2 > len(m) - 1 + 1: ok = False; break
                ms.append(dict(addr=addr, seq=m[j+1], ty=m[j+2], data=m[j+3:], raw=m))
                i += l + 1
        pkts.append(dict(ok=ok, msgs=ms, raw=f))
    return pkts
