SPECIFICATION DSpec
CONSTANTS QMax = 3
  MaxMsgs = 6
INVARIANTS Bounded FIFO OnceOnly Accounted
CHECK_DEADLOCK FALSE
