SPECIFICATION TSpec
POSTCONDITION TraceAccepted
CHECK_DEADLOCK FALSE
