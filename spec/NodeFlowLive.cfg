SPECIFICATION LSpec
CONSTANTS
  Q = {"SendNoExpiry"}
  LAddrs <- L_Addrs
  LTypes = {23, 12}
  LAnswers = {147, 160}
  MaxHeld = 2
INVARIANT LTypeOk
PROPERTY HeldEventuallySent
CHECK_DEADLOCK FALSE
