SPECIFICATION TSpec
CONSTANTS Q = {"PinnedExpiry", "RootStallIgnored"}
POSTCONDITION TraceAccepted
CHECK_DEADLOCK FALSE
