SPECIFICATION LSpec
CONSTANTS QMax = 128
  TQ = {}
INVARIANT NotAccepted
CONSTRAINT Progress
POSTCONDITION Report
CHECK_DEADLOCK FALSE
