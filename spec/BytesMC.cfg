SPECIFICATION Spec
