------------------------------ MODULE Dispatch ------------------------------
(***************************************************************************)
(* The three uplink queues (C06): bounded FIFOs that discard the oldest    *)
(* entry on overflow; every entry is returned to exactly one reader, once. *)
(* The destination of a message in normal mode is Track!Up(...).q; in      *)
(* low-level debug mode everything except MSG_STALL goes to the message    *)
(* queue.  uq = [msg, err, int] of sequences of raw messages.              *)
(***************************************************************************)
EXTENDS Naturals, Sequences

CONSTANT QMax        \* 128 in the library; the model checker uses 3

QEmpty == [msg |-> <<>>, err |-> <<>>, int |-> <<>>]
QPushOne(q, m) == IF Len(q) >= QMax THEN Append(Tail(q), m) ELSE Append(q, m)
QPush(uq, dest, m) == IF dest = "none" THEN uq ELSE [uq EXCEPT ![dest] = QPushOne(@, m)]
(* one read call on queue k: ok = FALSE stands for the NULL result *)
QRead(uq, k) == IF uq[k] = <<>> THEN [ok |-> FALSE, res |-> <<>>, uq |-> uq] ELSE [ok |-> TRUE, res |-> Head(uq[k]), uq |-> [uq EXCEPT ![k] = Tail(@)]]
DebugDest(ty) == IF ty = 142 THEN "none" ELSE "msg"
=============================================================================
