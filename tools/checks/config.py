"""C13 / C14: starts with generated configuration files.

C14 (judged starts): generated valid configurations of every shape and each single-fault mutation class of the statement
at every applicable position (gen_config.mutations) are started on the real library against a bus tree; TLC decides with
Config!Accept what the return value has to be, and after acceptance compares the whole tracked state with
Track!StartState and every enumeration getter with Config!ListsOk / AspectListsOk (Trace_Config).  ConfigMC-style
consistency: TLC also reports WHICH clause each mutant fails; a mutation class that fails another clause than the one it
was generated for is a generator / specification mismatch (infrastructure failure, not a finding).

C13 (unjudged starts): TLC enumerates every structural single-fault mutant of the document trees of a configuration that
uses every section (ConfigDoc!Mutants); text-level classes (missing / empty file, truncation at every line and inside a
token, byte noise) are added here.  Each mutant is started in an ASan/UBSan/LSan process: the start must return 0 or 1
(Trace_Config), the process must neither crash nor hang (watchdog), nothing may be leaked, and the following start
with the valid configuration must be accepted and establish exactly the state of a first start (lock still held,
half-registered record, stale global = refused or hung restart)."""
import random, os, json, shutil, tempfile, zlib, collections
from vlib import build, drv, check, tlc, wire, cfg as cfgmod, gen_track as g, gen_config as gc

EXPECT = {   # mutation class -> the clause of Config!Accept it has to fail (and no other)
    "dup_board_id": "BoardIdsUnique", "dup_board_uid": "BoardUidsUnique", "track_board_undeclared": "TrackBoardsDeclared",
    "dup_point_id": "PointIdsUnique", "dup_signal_id": "SignalIdsUnique", "dup_peripheral_id": "PeripheralIdsUnique",
    "dup_segment_id": "SegmentIdsUnique", "dup_reverser_id": "ReverserIdsUnique", "dup_train_id": "TrainIdsUnique",
    "dup_point_number": "NumbersUniquePerBoard", "dup_signal_number": "NumbersUniquePerBoard", "dup_peripheral_number": "NumbersUniquePerBoard",
    "dup_peripheral_port": "PortsUniquePerBoard", "dup_segment_address": "SegmentAddressesUniquePerBoard", "dup_reverser_cv": "CvsUniquePerBoard",
    "shared_dcc_train_train": "DccAddressesUnique", "shared_dcc_acc_train": "DccAddressesUnique", "shared_dcc_train_acc": "DccAddressesUnique",
    "shared_dcc_acc_acc": "DccAddressesUnique", "dup_aspect_id": "AspectsOk", "dup_aspect_value": "AspectsOk", "no_aspects": "AspectsOk",
    "initial_undeclared": "AspectsOk", "bad_calibration": "TrainsOk", "bad_speed_steps": "TrainsOk", "bad_function_bit": "TrainsOk",
    "dup_function_bit": "TrainsOk",
}

class Start:
    """one start (+ observation + stop) inside a script"""
    def __init__(self, script, sid, cfg, cfgdir, judged, texts=None, present=None, tree_cfg=None, cls="valid", where="-"):
        self.cfg = cfg; self.judged = judged; self.cls = cls; self.where = where
        # the bus plays the boards of tree_cfg (C13: the valid configuration, whatever the files say)
        self.sess = g.Session(sid, tree_cfg or cfg, cfgdir, full=True, script=script, present=present, rounds=8)
        s = self.sess.s
        if texts is not None:
            for name, fn in gc.FILES.items():
                p = os.path.join(cfgdir, fn)
                if texts[name] is None: os.remove(p)
                else: open(p, "wb").write(texts[name] if isinstance(texts[name], bytes) else texts[name].encode())
        elif tree_cfg is not None: cfgmod.write(cfg, cfgdir)
        self.lists = len(s.lines); s.add("get lists")
        self.asp = []
        if judged:
            seen = set()
            for b in cfg["track"]:
                for k, kind in (("pb", "point"), ("pd", "point"), ("sb", "signal"), ("sd", "signal"), ("per", "peripheral")):
                    for a in b.get(k, []):
                        if (kind, a["id"]) in seen: continue
                        seen.add((kind, a["id"])); self.asp.append((len(s.lines), kind, a["id"])); s.add("get aspects %s %s" % (kind, a["id"]))
        self.stop = len(s.lines); s.add("stop"); self.sess.stopped = True

    def events(self, rr):
        out = rr.out; se = self.sess
        st = out.get(se.start_line); sp = out.get(self.stop)
        if not st or not sp: return None
        st = st[0]; sp = sp[0]
        ev = {"e": "cfgstart", "judged": 1 if self.judged else 0, "cfg": cfgmod.to_spec(self.cfg) if self.judged else 0,
              "tree": [{"p": list(p), "uid": list(u)} for p, u in se.tree], "ret": st.get("ret"), "running": st.get("running"),
              "live": st.get("thr", {}).get("live", -1), "st": 0, "lists": 0, "aspects": [], "_cls": self.cls, "_where": self.where}
        if self.judged and st.get("ret") == 0:
            gq = out.get(se.start_get); lq = out.get(self.lists)
            if not gq or not lq or not gq[0].get("st") or not lq[0].get("res"): return None
            ev["st"] = g.keyed(gq[0]["st"]); ev["lists"] = g.norm_lists(lq[0]["res"])
            for ln, kind, i in self.asp:
                o = out.get(ln)
                if not o or o[0].get("res") is None: return None
                ev["aspects"].append({"kind": kind, "id": i, "aspects": o[0]["res"]["aspects"]})
        return [ev, {"e": "stop", "running": sp.get("running"), "live": sp.get("thr", {}).get("live", -1)}]

def clean(evs): return [{k: v for k, v in e.items() if not k.startswith("_")} for e in evs]

def run(pid, tier):
    ctx = check.Ctx(pid, tier, level="model_checking" if pid == "C14" else "fault_enumeration"); thorough = tier == "thorough"
    rng = random.Random(ctx.seed * 86028121 + zlib.crc32(pid.encode()) % 1000)
    try: exe = build.build("asan")
    except build.BuildError as ex:
        ctx.infra_fail("library/driver build failed: %s" % ex); return ctx.finish()
    tmp = tempfile.mkdtemp(prefix="vcfg_", dir=check.TMP)
    try: return (_run14 if pid == "C14" else _run13)(ctx, pid, thorough, rng, exe, tmp)
    finally: shutil.rmtree(tmp, ignore_errors=True)

def _execute(ctx, exe, chains, what):
    """chains: list of lists of Start sharing one script.  Returns [(first script, events, starts)] of the processes that ended
    normally; crashes / hangs / leaks are reported here (a batch that died is re-run start by start to name the culprit)."""
    res = drv.run(exe, [ch[0].sess.s for ch in chains], timeout=45)          # a batch takes a few seconds; a start that hangs costs the watchdog time
    items = []; redo = []
    for ch in chains:
        s = ch[0].sess.s; rr = res.get(s.sid)
        if rr is None or rr.status != "ok": redo.append((ch, rr)); continue
        lk = [o[0] for o in rr.out.values() if o and o[0].get("op") == "leakcheck"]
        if lk and lk[0].get("leaks") not in (0, None): redo.append((ch, rr)); continue
        evs = [{"e": "proc"}]; bad = False
        for stt in ch:
            e = stt.events(rr)
            if e is None: bad = True; break
            evs += e
        if bad: ctx.note("%s: output incomplete, skipped" % s.sid); ctx.cov["skipped_sessions"] = ctx.cov.get("skipped_sessions", 0) + 1; continue
        items.append((s, evs, ch))
    return items, redo

def _validate(ctx, pid, items, what):
    rej = check.validate_scripts(ctx, "Trace_Config.tla", "Trace_Config.cfg", [(s, clean(evs)) for s, evs, _ in items], timeout=1800, batch=10)
    byid = {s.sid: (evs, ch) for s, evs, ch in items}
    for s, ev, k, r in rej:
        evs, ch = byid[s.sid]; e = evs[k] if k < len(evs) else {}
        # the start this event belongs to (events: proc, then cfgstart/stop pairs)
        stt = ch[(k - 1) // 2] if k >= 1 and (k - 1) // 2 < len(ch) else None
        desc = {x: e[x] for x in e if x not in ("st", "cfg", "lists", "aspects", "tree")}
        ctx.violation("%s: start with %s [%s at %s] is not a behaviour of the specification: event %d %s refused" % (
            s.sid, what, e.get("_cls"), e.get("_where"), k, json.dumps(desc)[:400]),
            {"kind": "trace", "module": "Trace_Config.tla", "cfg": "Trace_Config.cfg", "script": s.text(), "events": clean(evs), "refused_at": k,
             "class": e.get("_cls"), "where": e.get("_where"), "config": stt.cfg if stt else None,
             "files": _files_of(stt) if stt else None})

def _files_of(stt):
    d = None
    for ln in stt.sess.s.lines[stt.sess.start_line:stt.sess.start_line + 1]:
        d = ln.split()[1]
    out = {}
    for name, fn in gc.FILES.items():
        try: out[name] = open(os.path.join(d, fn), "rb").read().decode("latin-1")
        except OSError: out[name] = None
    return out

# ------------------------------------------------------------------------------------------------ C14
def _run14(ctx, pid, thorough, rng, exe, tmp):
    # valid configurations of every shape
    shapes = []
    shapes.append(("no boards, no trains", {"boards": [], "track": [], "trains": []}))
    c = cfgmod.gen(rng, nboards=2, ntrains=1); c["track"] = []; shapes.append(("boards without track sections", c))
    c = cfgmod.gen(rng, nboards=2, ntrains=0)
    for b in c["track"]:
        for k in ("pb", "pd", "sb", "sd", "per", "seg", "rev"): b[k] = []
    shapes.append(("every section empty", c))
    shapes.append(("every section of the layout", gc.full_cfg()))
    shapes.append(("the repository's test configuration", cfgmod.state_tests_like()))
    for i in range(40 if thorough else 10):
        shapes.append(("generated %d" % i, cfgmod.gen(rng, nboards=rng.choice([0, 1, 2, 3, 4]), ntrains=rng.choice([0, 1, 2, 3]), allow_hi_bits=(i % 2 == 0))))
    cases = []          # (class, where, cfg, base cfg for the bus)
    per_class = 10 ** 9 if thorough else 3
    for name, c in shapes:
        cases.append(("valid", name, c, c))
    for name, c in shapes[3:]:
        by = collections.defaultdict(list)
        for m in gc.mutations(c, rng): by[m[0]].append(m)
        for cls, L in sorted(by.items()):
            for m in (L if len(L) <= per_class else rng.sample(L, per_class)): cases.append((m[0], m[1], m[2], c))
    ctx.cov["valid_configurations"] = len(shapes); ctx.cov["mutants"] = len(cases) - len(shapes)
    # ---- TLC: which clause does each case fail?  (generator and specification must agree on the reason)
    casefile = os.path.join(tmp, "cases.json")
    json.dump([{"cls": cl, "cfg": cfgmod.to_spec(c)} for cl, _, c, _ in cases], open(casefile, "w"))
    r = tlc.run("ConfigMC.tla", "ConfigMC.cfg", workers=1, timeout=1800, env={"CASES": casefile, "OUT": os.path.join(tmp, "failing.json")})
    ctx.add_tlc("ConfigMC (failing clauses of %d cases; algebraic sanity ASSUMEs of Config)" % len(cases), r); tlc.cleanup(r)
    try: failing = json.load(open(os.path.join(tmp, "failing.json")))
    except (OSError, ValueError): failing = None
    if failing is None or len(failing) != len(cases): ctx.infra_fail("ConfigMC produced no verdicts: " + (r.error or r.out[-600:])[:800]); return ctx.finish()
    ctx.cov["states"] += len(cases); ctx.cov["transitions"] += len(cases)
    for (cl, where, c, _), f in zip(cases, failing):
        want = [] if cl == "valid" else [EXPECT[cl]]
        if sorted(f) != want:
            ctx.infra_fail("generator / specification mismatch: case %s at %s fails clauses %s, expected %s" % (cl, where, f, want)); break
        ctx.distinct(("clause", cl, tuple(f)))
    # ---- real library: every case is one judged start; several per process
    chains = []; cur = None
    for i, (cl, where, c, base) in enumerate(cases):
        present = None
        if cl == "valid" and base["boards"] and rng.random() < 0.4:
            present = set(b["id"] for b in base["boards"] if rng.random() < 0.7)
        if cur is None or len(cur) >= 12: cur = []; chains.append(cur)
        st = Start(cur[0].sess.s if cur else None, "cf%d" % (len(chains) - 1), c, os.path.join(tmp, "c%d" % i), True, present=present,
                   tree_cfg=base if cl != "valid" else None, cls=cl, where=where)
        cur.append(st)
    for ch in chains: ch[-1].sess.s.add("leakcheck")
    items, redo = _execute(ctx, exe, chains, "configuration")
    _report_dead(ctx, exe, redo, tmp, "C14")
    for s, evs, ch in items:
        for e in evs:
            if e["e"] == "cfgstart": ctx.cov["evaluations"] += 1; ctx.distinct((e["_cls"], e["ret"]))
    _validate(ctx, pid, items, "a generated configuration")
    for s, evs, ch in items[:2]:
        for e in evs[1:4:2]: ctx.sample({"class": e.get("_cls"), "where": e.get("_where"), "ret": e.get("ret"), "boards": len(e["cfg"]["boards"]) if e.get("cfg") else None})
    ctx.cov["rule"] = ("cases = judged starts of the real library (valid shapes + single-fault mutants of the statement's classes at every / "
                       "sampled applicable positions); distinct = distinct (mutation class, return value) pairs and (class, failing clause) pairs")
    ctx.assumptions += ["a point and a signal sharing a number, ids shared across entity kinds and duplicate train-function ids are outside the statement and are not generated",
                        "malformed scalars (bad hex, over-long values) are exercised by C13; C14 judges the semantic classes of the statement",
                        "bus simulator: automatic replies off; the state after the start is compared after the start-up traffic was drained"]
    return ctx.finish()

def _report_dead(ctx, exe, redo, tmp, pid):
    """processes that crashed / hung / leaked: every start again in a process of its own"""
    for n_dead, (ch, rr) in enumerate(redo):
        if n_dead >= 4:
            # enough culprits named one by one: the remaining dead batches are reported as they are
            st = rr.status if rr else "missing"
            ctx.violation("a sequence of starts in one process ended with %s (classes in the batch: %s)" % (st, sorted(set(o.cls for o in ch))[:8]),
                          {"kind": "crash", "script": ch[0].sess.s.text(), "classes": [(o.cls, o.where) for o in ch], "stderr": rr.stderr[-3000:] if rr else ""})
            continue
        singles = []
        for k, stt in enumerate(ch):
            d = os.path.join(tmp, "redo_%s_%d" % (ch[0].sess.s.sid, k)); src = stt.sess.s.lines[stt.sess.start_line].split()[1]
            one = Start(None, "%s_r%d" % (ch[0].sess.s.sid, k), stt.cfg, d, stt.judged, cls=stt.cls, where=stt.where,
                        tree_cfg=stt.sess.cfg if stt.sess.cfg is not stt.cfg else None)
            for fn in gc.FILES.values():                        # exactly the files of the batch run
                if os.path.exists(os.path.join(d, fn)): os.remove(os.path.join(d, fn))
                if os.path.exists(os.path.join(src, fn)): shutil.copy(os.path.join(src, fn), os.path.join(d, fn))
            one.sess.s.add("leakcheck"); singles.append(one)
        res = drv.run(exe, [o.sess.s for o in singles], timeout=20)
        named = False
        for o in singles:
            r1 = res.get(o.sess.s.sid)
            lk = [x[0] for x in (r1.out.values() if r1 else []) if x and x[0].get("op") == "leakcheck"]
            leak = bool(lk and lk[0].get("leaks") not in (0, None))
            if r1 is not None and r1.status == "ok" and not leak: continue
            named = True
            st = ("leak" if leak else r1.status) if r1 else "missing"
            summ = ""
            if r1:
                import re
                m = re.search(r"SUMMARY: \w+Sanitizer: (.*)", r1.stderr); summ = m.group(1)[:200] if m else r1.stderr[-300:].replace("\n", " ")
            ctx.violation("start with a %s configuration [%s at %s]: process ended with %s (%s)" % ("mutated" if o.cls != "valid" else "valid", o.cls, o.where, st, summ),
                          {"kind": "leak" if leak else "crash", "class": o.cls, "where": o.where, "script": o.sess.s.text(), "files": _files_of(o),
                           "stderr": r1.stderr[-5000:] if r1 else ""})
        if not named:
            st = rr.status if rr else "missing"
            ctx.violation("a sequence of starts in one process ended with %s although every start alone ends normally (state left behind by an earlier start)" % st,
                          {"kind": "crash", "script": ch[0].sess.s.text(), "classes": [(o.cls, o.where) for o in ch], "stderr": rr.stderr[-5000:] if rr else ""})

# ------------------------------------------------------------------------------------------------ C13
def _run13(ctx, pid, thorough, rng, exe, tmp):
    full = gc.full_cfg(); trees = gc.doc_trees(full); texts = {k: gc.emit(v) for k, v in trees.items()}
    docs = os.path.join(tmp, "docs.json"); outp = os.path.join(tmp, "mutants.json")
    json.dump([{"name": k, "tree": v} for k, v in trees.items()], open(docs, "w"))
    r = tlc.run("ConfigDoc.tla", "ConfigDoc.cfg", workers=1, timeout=900, env={"DOCS": docs, "OUT": outp})
    try: muts = json.load(open(outp))
    except (OSError, ValueError): muts = None
    n_m = sum(len(x["mutants"]) for x in muts) if muts else 0
    ctx.add_tlc("ConfigDoc (single-fault mutants of the three documents: %d)" % n_m, r); tlc.cleanup(r)
    if not muts or "MUTANTS" not in r.out: ctx.infra_fail("ConfigDoc produced no mutants: " + (r.error or r.out[-800:])[:900]); return ctx.finish()
    ctx.cov["states"] += n_m; ctx.cov["transitions"] += n_m
    cases = []      # (class, where, texts)
    for x in muts:
        L = sorted(x["mutants"], key=lambda m: (m["path"], m["cls"]))
        if not thorough and x["name"] == "track":
            # quick tier: every position of the track file with a rotating third of the scalar formats; everything else complete
            keep = []
            for i, m in enumerate(L):
                if m["cls"].startswith("scalar_") and m["cls"] not in ("scalar_to_sequence", "scalar_to_mapping") and (i + zlib.crc32("/".join(m["path"]).encode())) % 3: continue
                keep.append(m)
            L = keep
        for m in L:
            t = dict(texts); t[x["name"]] = gc.emit(m["n"]); cases.append((m["cls"], x["name"] + ":" + "/".join(m["path"]), t))
    tf = gc.text_faults(texts, rng, 150 if thorough else 12)
    cases += tf
    # pairs of faults in different files (sampled)
    for _ in range(200 if thorough else 20):
        a, b = rng.sample(cases[:n_m] if n_m < len(cases) else cases, 2)
        t = dict(texts); ch = 0
        for k in t:
            if a[2][k] != texts[k]: t[k] = a[2][k]; ch += 1
            elif b[2][k] != texts[k]: t[k] = b[2][k]; ch += 1
        if ch == 2: cases.append(("two_files:" + a[0] + "+" + b[0], a[1] + " & " + b[1], t))
    ctx.cov["structural_mutants"] = n_m; ctx.cov["text_level_cases"] = len(tf); ctx.cov["cases_run"] = len(cases)
    chains = []; cur = None
    for i, (cl, where, t) in enumerate(cases):
        if cur is None or len(cur) >= 16: cur = []; chains.append(cur)
        sc = cur[0].sess.s if cur else None; sid = "cd%d" % (len(chains) - 1)
        cur.append(Start(sc, sid, full, os.path.join(tmp, "m%d" % i), False, texts=t, tree_cfg=full, cls=cl, where=where))
        cur.append(Start(cur[0].sess.s, sid, full, os.path.join(tmp, "v%d" % i), True, cls="valid", where="restart after %s at %s" % (cl, where)))
    for ch in chains: ch[-1].sess.s.add("leakcheck")
    items, redo = _execute(ctx, exe, chains, "mutant")
    _report_dead(ctx, exe, redo, tmp, "C13")
    for s, evs, ch in items:
        for e in evs:
            if e["e"] == "cfgstart" and e["judged"] == 0: ctx.cov["evaluations"] += 1; ctx.distinct((e["_cls"].split(":")[0], e["_where"].split(":")[0], e["ret"]))
    _validate(ctx, pid, items, "mutated configuration files")
    acc = collections.Counter((e["_cls"], e["ret"]) for s, evs, ch in items for e in evs if e["e"] == "cfgstart" and e["judged"] == 0)
    ctx.cov["accepted_mutants"] = sum(v for (c, r_), v in acc.items() if r_ == 0); ctx.cov["rejected_mutants"] = sum(v for (c, r_), v in acc.items() if r_ == 1)
    for cl, where, t in cases[:2] + cases[-2:]: ctx.sample({"class": cl, "where": where})
    ctx.cov["rule"] = ("cases = starts of the real library with mutated files, each followed by a judged start of the valid configuration in the "
                       "same process; distinct = distinct (fault class, file, return value) triples")
    ctx.assumptions += ["crashes / out-of-bounds / use-after-free / leaks are detected by ASan, UBSan and LSan (auxiliary detectors); hangs by the driver's watchdog",
                        "'released every lock' is observed through the following start (a lock left held blocks or fails it) and through bidib_stop returning",
                        "quick tier: scalar formats on the track file are rotated over the positions (every position gets 4 of 12 formats); thorough: all"]
    return ctx.finish()
