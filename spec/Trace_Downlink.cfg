SPECIFICATION TSpec
CONSTANTS Q = {}
INVARIANTS Budget DeferFIFOOnce NotStranded NotStrandedByStall StallSilence SeqConsecutive
POSTCONDITION TraceAccepted
CHECK_DEADLOCK FALSE
