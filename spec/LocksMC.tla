------------------------------ MODULE LocksMC ------------------------------
(* All interleavings of K concurrently running lock programs (taken from LocksData!Programs, the distinct programs
   recorded from the real code): no reachable state in which an unfinished program can never proceed (deadlock). *)
EXTENDS Locks, LocksData, TLC

CONSTANT K
VARIABLES pick,     \* [1..K -> index into Programs]
          pc,       \* [1..K -> next operation]
          hold      \* [1..K -> held sequence]
mv == <<pick, pc, hold>>

P(t) == Programs[pick[t]]
Done(t) == pc[t] > Len(P(t))
WHeldByOther(t, lk) == \E u \in 1..K : u # t /\ HoldsW(hold[u], lk)
AnyHeldByOther(t, lk) == \E u \in 1..K : u # t /\ HoldsAny(hold[u], lk)
CanStep(t) == ~Done(t) /\ LET o == P(t)[pc[t]] IN
                 CASE o.op = "u" -> TRUE
                   [] o.op = "r" -> ~WHeldByOther(t, o.l) /\ ~HoldsW(hold[t], o.l)
                   [] OTHER -> ~AnyHeldByOther(t, o.l) /\ ~HoldsAny(hold[t], o.l)
Step(t) == /\ CanStep(t)
           /\ LET o == P(t)[pc[t]] IN
              hold' = [hold EXCEPT ![t] = IF o.op = "u" THEN Without(@, LastIdx(@, o.l)) ELSE Append(@, [l |-> o.l, mode |-> o.op])]
           /\ pc' = [pc EXCEPT ![t] = @ + 1]
           /\ UNCHANGED pick
MInit == /\ pick \in {f \in [1..K -> 1..Len(Programs)] : \A i \in 1..(K - 1) : f[i] <= f[i + 1]}
         /\ pc = [t \in 1..K |-> 1] /\ hold = [t \in 1..K |-> <<>>]
MNext == \E t \in 1..K : Step(t)
MSpec == MInit /\ [][MNext]_mv
NoDeadlock == (\E t \in 1..K : ~Done(t)) => \E t \in 1..K : CanStep(t)
=============================================================================
