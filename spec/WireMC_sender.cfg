SPECIFICATION SenderSpec
CONSTANTS
  MsgPool <- Pool
  Caps = {0, 13, 22}
  MinCap = 12
  Tokens <- Toks
  MaxAdd = 4
  MaxTok = 0
INVARIANTS OnceInOrder MultiMsgWithinCap NoEmptyPacket BufferBound WireDecodes
CHECK_DEADLOCK FALSE
