SPECIFICATION MCSpec
CONSTANTS
  Q = {}
  Addrs <- MC_AddrsSmall
  Types = { 34, 1, 12, 23 }
  AnsTypes = { 129, 137, 147, 160 }
  MaxSend = 3
  MaxUp = 2
  MaxStall = 2
  MaxTick = 1
INVARIANTS TypeOk Budget DeferFIFOOnce NotStranded NotStrandedByStall StallSilence SeqConsecutive
CHECK_DEADLOCK FALSE
