CONSTANT TQ = {}
