SPECIFICATION Spec
