"""Script / event builders for normal-mode sessions (Track layer): configuration + bus tree + uplink feedback,
high-level commands, getters.  One logical event = action line (+ drain line) (+ getall line); to_events() merges the
driver's output lines into one ndjson event for Trace_Track."""
import os, json
from .drv import Script
from . import wire, cfg as cfgmod

BND = [0, 1, 2, 15, 16, 31, 32, 63, 64, 127, 128, 191, 192, 250, 251, 253, 254, 255]

def bval(rng):
    return rng.choice(BND) if rng.random() < 0.7 else rng.randrange(256)

def na3(path): return (list(path) + [0, 0, 0])[:3]

class Session:
    """builds one script block"""
    def __init__(self, sid, cfg, cfgdir, paths=None, present=None, full=True, extra_nodes=(), flush_ms=0, rounds=12, tree=None, boot=False, bus_opts=(), script=None, reboot=False):
        """tree: list of (path, uid) played by the bus simulator (default: derived from paths / the configuration);
        boot: start-up session (automatic replies on, no drain rounds, transcript + connectivity checked, C15/C20)"""
        self.sid = sid; self.cfg = cfg; self.full = full; self.nb = 0; self.stopped = False; self.boot = boot
        uid = {b["id"]: b["uid"] for b in cfg["boards"]}
        if tree is None:
            self.paths = paths if paths is not None else cfgmod.paths(cfg)
            if present is not None: self.paths = {b: p for b, p in self.paths.items() if b in present}
            tree = [(list(p), uid[b]) for b, p in self.paths.items()]
            if not any(p == [] for p, _ in tree): tree.append(([], [0x80, 0, 0x0d, 0, 0, 0, 1]))      # an interface nobody configured
            tree += [(list(p), list(u)) for p, u in extra_nodes]
        else:
            byuid = {tuple(u): b for b, u in uid.items()}
            self.paths = {byuid[tuple(u)]: list(p) for p, u in tree if tuple(u) in byuid}             # informational (generators)
        self.tree = [(list(p), list(u)) for p, u in tree]
        self.s = script if script is not None else Script(sid); self.ev = []          # ev: list of dict(tmpl, act, drain, get) line indexes
        cfgmod.write(cfg, cfgdir)
        s = self.s
        s.add("bus clear"); s.add("bus on"); s.add("bus autoreply " + ("on" if boot else "off"))
        self.nodes = []
        for p, u in self.tree:
            s.add("bus node %02x %02x %02x %s" % (tuple(na3(p)) + ("".join("%02x" % x for x in u),))); self.nodes.append(list(p))
        for o in bus_opts: s.add("bus " + o)
        s.add("debug 0")
        self.start_line = len(s.lines); s.add("start %s %d" % (cfgdir, flush_ms))
        self.drain_lines = []
        if not boot:
            for _ in range(rounds):
                s.add("tick 3")
                for n in self.nodes:
                    self.drain_lines.append(len(s.lines)); s.add("feed " + wire.hexs(wire.packet([wire.msg(n, 0, 0x82, [0])])))
            s.add("tick 3"); s.add("drain")
        else:
            s.add("waitidle"); self.drain_lines.append(len(s.lines)); s.add("flush")
            self._boot_drain(self.drain_lines)
        self.start_get = len(s.lines); s.add("getall")
        self.reboot = None
        if boot and reboot:
            # a later system reset repeats the whole start-up (C20: "during startup and after every system reset")
            a = len(s.lines); s.add("ll bidib_send_sys_reset"); s.add("waitidle"); b = len(s.lines); s.add("flush")
            more = []; self._boot_drain(more)
            c = len(s.lines); s.add("getall")
            self.reboot = (a, [b] + more, c)

    def _boot_drain(self, lines):
        # start-up messages held back by a node's response budget are released by later traffic from that node: a few
        # rounds of "2 s pass, every node says something" belong to the start-up transcript
        s = self.s
        for _ in range(5):
            s.add("tick 3")
            for n in self.nodes:
                lines.append(len(s.lines)); s.add("feed " + wire.hexs(wire.packet([wire.msg(n, 0, 0x82, [0])])))
        lines.append(len(s.lines)); s.add("flush"); s.add("drain")

    # ---- logical events
    def _add(self, line, tmpl, drain=False, get=True):
        e = {"tmpl": tmpl, "act": len(self.s.lines), "drain": None, "get": None}
        self.s.add(line)
        if drain: e["drain"] = len(self.s.lines); self.s.add("drain")
        if self.full and get and not self.stopped: e["get"] = len(self.s.lines); self.s.add("getall")
        self.ev.append(e)
    # C17: keep query results, look at them again later, free them once
    def hold(self):
        k = self.nb; self.nb += 1; self._add("bundle take", {"e": "hold", "k": k, "_b": 1}, get=False); return k
    def held(self, k): self._add("bundle print %d" % k, {"e": "held", "k": k, "_b": 1}, get=False)
    def release(self, k): self.s.add("bundle free %d" % k)
    def stop(self):
        self._add("stop", {"e": "stop"}, get=False); self.stopped = True
    def up(self, n, ty, d, seq=0, sv=0, drain=True):
        pk = wire.packet([wire.msg(n, seq, ty, d)])
        self._add("feed " + wire.hexs(pk), {"e": "up", "n": list(n), "ty": ty, "d": list(d), "sv": sv, "sq": seq, "dr": 1 if drain else 0}, drain=drain)
    def lists(self):
        """every enumeration getter (Config!ListsOkT against the allocation table / availability as they are now)"""
        self._add("get lists", {"e": "lists", "_lists": 1}, get=False)
    def drain(self): self._add("drain", {"e": "drain", "_q": 1})
    def read(self, k): self._add("readmsg" if k == "msg" else "readerr", {"e": "rd", "k": k, "_m": 1})
    def hl(self, fn, sargs, i=0):
        """sargs: id arguments in order (None = NULL); i: the numeric argument"""
        toks = []
        if fn in ("bidib_set_train_speed", "bidib_set_calibrated_train_speed"): toks = [_t(sargs[0]), str(i), _t(sargs[1])]
        elif fn == "bidib_set_train_peripheral": toks = [_t(sargs[0]), _t(sargs[1]), str(i), _t(sargs[2])]
        elif fn in ("bidib_set_booster_power_state", "bidib_set_track_output_state", "bidib_ping", "bidib_identify"): toks = [_t(sargs[0]), str(i)]
        elif fn == "bidib_set_track_output_state_all": toks = [str(i)]
        else: toks = [_t(x) for x in sargs]
        self._add("hl %s %s" % (fn, " ".join(toks)), {"e": "hl", "fn": fn, "s": ["" if x is None else x for x in sargs], "i": i, "_copy": ["ret"]})
    def ll(self, fn, na, args):
        """low-level send in normal mode (TLl)"""
        from . import gen_downlink
        line, ev = gen_downlink.ll_line(fn, na, args); self._add(line, ev)
    def tick(self, d): self._add("tick %d" % d, {"e": "tick", "d": d})
    def flush(self): self._add("flush", {"e": "flush"})
    def end(self):
        if not self.stopped: self.s.add("stop")
        return self
    def meta(self):
        """what to_events needs besides the driver's output (stored in replay files: vcheck --replay runs the script again
        on the current tree and rebuilds the events from the new output)"""
        return {"kind": "track_session", "sid": self.sid, "cfg": self.cfg, "tree": self.tree, "nodes": self.nodes, "boot": self.boot,
                "reboot": self.reboot, "start_line": self.start_line, "start_get": self.start_get, "drain_lines": self.drain_lines, "ev": self.ev}

class SessionView:
    """a Session rebuilt from Session.meta() (read-only: enough for to_events)"""
    def __init__(self, m):
        self.sid = m["sid"]; self.cfg = m["cfg"]; self.tree = [(list(p), list(u)) for p, u in m["tree"]]; self.nodes = m["nodes"]; self.boot = m["boot"]
        self.reboot = tuple(m["reboot"]) if m.get("reboot") else None
        self.start_line = m["start_line"]; self.start_get = m["start_get"]; self.drain_lines = m["drain_lines"]; self.ev = m["ev"]

def _t(x): return "~" if x is None else ("%e" if x == "" else x)

def path_of(a3):
    out = []
    for x in a3:
        if x == 0: break
        out.append(x)
    return out

def keyed(st):
    """driver projection (lists of records with id) -> records keyed by id, as Track.Matches expects"""
    o = {}
    for k in ("pb", "sb", "pd", "sd", "per", "seg", "rev", "bst", "to", "trn", "tpos"):
        o[k] = {}
        for r in st.get(k, []):
            r = dict(r); i = r.pop("id"); o[k][i] = r
        o["n" + k] = len(st.get(k, []))
    o["boards"] = {}
    for r in st.get("boards", []):
        o["boards"][r["id"]] = {"conn": r["conn"], "addr": path_of(r["addr"]) if r["addr"] else [], "uid": r["uid"], "kc": r["kc"]}
    o["ontrack"] = st.get("ontrack", [])
    return o

def norm_lists(res):
    """driver's `get lists` result -> what Config!ListsOkT / LookupsOk read (addresses as paths)"""
    for pb in res.get("perboard", []):
        if "byuid" in pb: pb["byuid"]["addr"] = path_of(pb["byuid"]["addr"])
    return res

def keyed_bundle(b):
    o = {"snap": keyed(b["snap"]), "sg": {}, "unk": b["unk"], "boards": b["boards"], "trains": b["trains"]}
    for k, lst in b["sg"].items():
        o["sg"][k] = {}
        for r in lst:
            r = dict(r); i = r.pop("id"); o["sg"][k][i] = r
    return o

def wire_of(outs):
    bs = []
    for o in outs:
        for ch in o.get("wire", []): bs += wire.unhex(ch)
    return bs

def to_events(sess, rr):
    """-> (events, problems).  The start event summarises startup + drain rounds."""
    out = rr.out; probs = []
    st_line = out.get(sess.start_line)
    if not st_line: return [], ["no start output"]
    if st_line[0].get("ret") != 0: return [], ["start returned %s" % st_line[0].get("ret")]
    # last sequence number per node over startup + drain rounds (decoded with the independent python codec, mechanical)
    # everything written between the start call and the first projection belongs to the start-up transcript (writes of
    # the receiver thread are reported with whatever script line is executing at that moment)
    bs = []
    for ln in range(sess.start_line, sess.start_get): bs += wire_of(out.get(ln, []))
    tail_quiet = True
    for k, ln in enumerate(sess.drain_lines):
        w = wire_of(out.get(ln, [{}]))
        if w and k >= len(sess.drain_lines) - 2 * max(1, len(sess.nodes)): tail_quiet = False
    if not tail_quiet and not sess.boot: probs.append("startup traffic not drained")
    last = {}
    for p in wire.decode(bs):
        for m in p["msgs"]:
            if m["seq"] != 0: last[tuple(m["addr"])] = m["seq"]
    g = out.get(sess.start_get)
    if not g: return [], ["no projection after start"]
    evs = [{"e": "start", "cfg": cfgmod.to_spec(sess.cfg), "tree": [{"p": list(p), "uid": list(u)} for p, u in sess.tree],
            "seqs": [{"n": list(n), "s": s} for n, s in last.items()], "cap": 64, "boot": 1 if sess.boot else 0,
            "nost": 1 if sess.boot else 0, "st": 0 if sess.boot else keyed(g[0]["st"]),
            }]
    if sess.boot: evs += [{"e": "bootw", "w": bs}, {"e": "booti"}, {"e": "boot", "conn": keyed(g[0]["st"])["boards"]}]
    if sess.boot and sess.reboot:
        a, b, c = sess.reboot
        if not (out.get(a) and all(out.get(x) for x in b) and out.get(c)): probs.append("no output of the second reset")
        else:
            w2 = []
            for ln in range(a, c): w2 += wire_of(out.get(ln, []))
            evs += [{"e": "bootw", "w": w2}, {"e": "booti"}, {"e": "boot", "conn": keyed(out[c][0]["st"])["boards"]}]
    for e in sess.ev:
        a = out.get(e["act"])
        if not a: probs.append("missing output at line %d" % e["act"]); break
        ev = dict(e["tmpl"])
        for k in ev.pop("_copy", []): ev[k] = a[0].get(k)
        if ev.pop("_q", None):
            ev["qm"] = [wire.unhex(x) for x in a[0].get("msg", [])]; ev["qe"] = [wire.unhex(x) for x in a[0].get("err", [])]
            ev["qi"] = [wire.unhex(x) for x in a[0].get("int", [])]
        if ev.pop("_b", None):
            res = a[0].get("res")
            if not res or res.get("b") is None: probs.append("bundle missing at line %d" % e["act"]); break
            ev["k"] = res["k"]; ev["b"] = keyed_bundle(res["b"])
        if ev.pop("_m", None): ev["m"] = wire.unhex(a[0]["m"]) if a[0].get("m") else []
        if ev.pop("_lists", None):
            if a[0].get("res") is None: probs.append("lists missing at line %d" % e["act"]); break
            ev["lists"] = norm_lists(a[0]["res"])
        if ev.get("e") == "up" and e["drain"] is None: ev["qm"] = []; ev["qe"] = []; ev["qi"] = []
        outs = list(a)
        if e["drain"] is not None:
            dq = out.get(e["drain"])
            if not dq: probs.append("missing drain"); break
            outs += dq
            ev["qm"] = [wire.unhex(x) for x in dq[0].get("msg", [])]; ev["qe"] = [wire.unhex(x) for x in dq[0].get("err", [])]
            ev["qi"] = [wire.unhex(x) for x in dq[0].get("int", [])]
        if e["get"] is not None:
            gq = out.get(e["get"])
            if not gq: probs.append("missing getall"); break
            outs += gq; ev["st"] = keyed(gq[0]["st"]); ev["nost"] = 0
        else:
            ev["nost"] = 1; ev["st"] = 0
        ev["w"] = wire_of(outs)
        evs.append(ev)
    return evs, probs

# ------------------------------------------------------------------ random content

def entities(cfg):
    """flat lists with the owning board"""
    e = {k: [] for k in ("pb", "sb", "pd", "sd", "per", "seg", "rev")}
    for t in cfg["track"]:
        for k in e:
            for x in t.get(k, []): e[k].append((t["id"], x))
    return e

def rand_uplink(rng, sess):
    """one state-bearing (or queue-bound) uplink message, mostly aimed at configured equipment, sometimes at
    unknown nodes / numbers / addresses"""
    cfg = sess.cfg; ent = entities(cfg); paths = sess.paths
    def node_of(b):
        if rng.random() < 0.08: return rng.choice([[9], [1, 9], [7, 7, 7]])
        return list(paths[b]) if b in paths else [9]
    boards = [b["id"] for b in cfg["boards"]]
    uid = {b["id"]: b["uid"] for b in cfg["boards"]}
    def dcc_of_train():
        if cfg["trains"] and rng.random() < 0.85:
            t = rng.choice(cfg["trains"]); return t["al"], t["ah"]
        return rng.randrange(256), rng.choice([0, 1, 0x3F])
    # bursts: several consecutive messages about the same entity (history-dependent effects need the same segment /
    # accessory / train to be hit repeatedly in varying order)
    GROUPS = {"seg": ["occ", "free", "multi", "addr", "addr", "conf", "cur"], "acc": ["acc", "accn"], "dacc": ["aack", "aman"],
              "per": ["lcstat", "lcwait"], "trn": ["speed", "dyn", "dack", "dman", "addr"], "bst": ["bstat", "bdiag", "cs"]}
    st = getattr(sess, "_stick", None)
    if st and st["ttl"] > 0:
        st["ttl"] -= 1; kind = rng.choice(GROUPS[st["g"]]); fixed = st
    else:
        fixed = None
        kind = rng.choice(["occ", "free", "multi", "addr", "addr", "conf", "cur", "speed", "dyn", "bstat", "bdiag", "cs", "dack", "aack",
                           "dman", "aman", "lcstat", "lcwait", "acc", "accn", "vendor", "queue", "queue", "pos", "devent"])
        if rng.random() < 0.25:
            grp = rng.choice(list(GROUPS))
            sess._stick = {"g": grp, "ttl": rng.choice([2, 3, 5]), "seg": rng.choice(ent["seg"]) if ent["seg"] else None,
                           "acc": rng.choice(ent["pb"] + ent["sb"]) if ent["pb"] + ent["sb"] else None,
                           "dacc": rng.choice(ent["pd"] + ent["sd"]) if ent["pd"] + ent["sd"] else None,
                           "per": rng.choice(ent["per"]) if ent["per"] else None,
                           "trn": rng.choice(cfg["trains"]) if cfg["trains"] else None}
    def pick(key, pool):
        if fixed and fixed.get(key): return fixed[key]
        return rng.choice(pool)
    if fixed and fixed.get("trn"):
        _t = fixed["trn"]
        def dcc_of_train(): return _t["al"], _t["ah"]
    anyb = rng.choice(boards) if boards else None
    if getattr(sess, "nodetab_events", False) and not fixed and rng.random() < sess.nodetab_events:
        # node-table notices (C15): loss of a connected board / interface, login of an absent or lost board (possibly at a new
        # address), notices about unknown unique ids; sender = an interface of the tree
        ver = rng.randrange(1, 255)
        # the notices describe a bus that could exist: the generator keeps track of who sits where, a new node is never
        # announced on an address another node occupies, a lost interface takes everything beneath it with it (what the
        # library should do when two boards are announced on one address is not specified, so it is not generated)
        where = getattr(sess, "_where", None)
        if where is None:
            where = {tuple(u): list(p) for p, u in sess.tree}; sess._where = where
        def beneath(path): return [k for k, p in where.items() if p[:len(path)] == path and p != path]
        conn_ifaces = [p for k, p in where.items() if (k[0] & 0x80 or p == []) and len(p) < 3] or [[]]
        if rng.random() < 0.5 and boards:
            b = rng.choice(boards); u = uid[b]; path = where.get(tuple(u))
            if path:                                                                                  # connected, not the root
                for k in beneath(path): del where[k]
                del where[tuple(u)]
                return path[:-1], 0x8c, [ver, path[-1]] + list(u)                                     # NODE_LOST from its interface
            if path is None: return rng.choice(conn_ifaces), 0x8c, [ver, rng.randrange(1, 20)] + list(u)   # notice about a board that is not there
        if rng.random() < 0.8 and boards:
            b = rng.choice(boards); u = uid[b]
        else: u = [rng.randrange(256) for _ in range(7)]
        cur = where.get(tuple(u))
        if cur is not None and (cur == [] or beneath(cur) or rng.random() < 0.7):
            u = [rng.randrange(256) for _ in range(7)]; cur = None                                    # re-login only of a leaf, now and then
        parent = rng.choice(conn_ifaces)
        free = [x for x in (1, 2, 3, 9, 200) if not any(p == parent + [x] for p in where.values())]
        if free:
            if cur is not None: del where[tuple(u)]
            x = rng.choice(free); where[tuple(u)] = parent + [x]
            return parent, 0x8d, [ver, x] + list(u)                                                   # NODE_NEW
    if kind in ("occ", "free", "cur", "addr", "multi", "conf"):
        if ent["seg"] and rng.random() < 0.9: b, sg = pick("seg", ent["seg"]); num = sg["addr"] if rng.random() < 0.9 else bval(rng)
        elif anyb: b, num = anyb, bval(rng)
        else: b, num = None, 0
        n = node_of(b) if b else [9]
        if kind == "occ": return n, 0xa0, [num]
        if kind == "free": return n, 0xa1, [num]
        if kind == "cur": return n, 0xa7, [num, bval(rng)]
        if kind == "conf": return n, 0xa9, [rng.choice([0, 0, 1, 255]), rng.choice([0, 1]), rng.choice([0, 1, 7])]
        if kind == "multi":
            size = rng.choice([8, 8, 16, 24, 64, 128]); base = rng.choice([0, 0, 8, (num // 8) * 8, 256 - size])     # 256 - size: the range ends with the last detector
            if base + size > 256: base = 0
            return n, 0xa2, [base, size] + [rng.choice([0, 0xff, rng.randrange(256)]) for _ in range(size // 8)]
        # address report; now and then the previous report of this segment again with the orientation bits flipped
        # (same decoders, other direction: derived train state has to follow although the address set is unchanged)
        last = getattr(sess, "_last_addr", {})
        key = (tuple(n), num)
        if key in last and rng.random() < 0.35:
            d = list(last[key])
            for i in range(2, len(d), 2):
                if not d[i] & 0x40 and rng.random() < 0.8: d[i] ^= 0x80
            last[key] = d; sess._last_addr = last
            return n, 0xa3, d
        k = rng.choice([0, 1, 1, 2, 3])
        if rng.random() < 0.2: return n, 0xa3, [num, 0, 0]                      # the "free" form
        lst = []
        for _ in range(k):
            al, ah = dcc_of_train()
            hi = (ah & 0x3F) | rng.choice([0x00, 0x00, 0x80, 0x80, 0x40, 0xC0])    # orientation / accessory marker
            lst += [al, hi]
        last[key] = [num] + lst; sess._last_addr = last
        return n, 0xa3, [num] + lst
    if kind == "speed":
        al, ah = dcc_of_train(); return node_of(anyb) if anyb else [9], 0xa6, [al, ah | rng.choice([0, 0x80]), bval(rng), bval(rng)]
    if kind == "dyn":
        al, ah = dcc_of_train(); return node_of(anyb) if anyb else [9], 0xaa, [bval(rng), al, ah, rng.choice([0, 1, 2, 3, 4, 5, 6, 255]), bval(rng)]
    if kind in ("bstat", "bdiag", "cs"):
        b = anyb; n = node_of(b) if b else [9]
        if kind == "bstat": return n, 0xb0, [rng.choice([0, 1, 2, 3, 4, 5, 6, 7, 0x80, 0x81, 0x82, 0x83, 0x84, 0x85, 255])]
        if kind == "cs": return n, 0xe1, [rng.choice([0, 1, 2, 3, 4, 8])]
        keys = rng.sample([0, 1, 2, 3, 9], rng.choice([1, 2, 3, 4]))
        d = []
        for k in keys: d += [k, bval(rng)]
        return n, 0xb2, d
    if kind == "dack":
        al, ah = dcc_of_train(); return node_of(anyb) if anyb else [9], 0xe2, [al, ah, rng.choice([0, 1, 2, 3, 4])]
    if kind == "dman":
        al, ah = dcc_of_train()
        return node_of(anyb) if anyb else [9], 0xe5, [al, ah, rng.choice([0, 2, 3]), rng.choice([0, 1, 2, 3, 4, 8, 16, 32, 63]), bval(rng),
                                                   rng.randrange(32), bval(rng), bval(rng), bval(rng)]
    if kind in ("aack", "aman"):
        pool = ent["pd"] + ent["sd"]
        if pool and rng.random() < 0.9: b, a = pick("dacc", pool); al, ah = a["al"], a["ah"]
        else: b, al, ah = anyb, rng.randrange(256), 1
        n = node_of(b) if b else [9]
        if kind == "aack": return n, 0xe3, [al, ah, rng.choice([0, 1, 2, 3, 4])]
        return n, 0xe7, [al, ah, bval(rng)]
    if kind in ("lcstat", "lcwait"):
        if ent["per"] and rng.random() < 0.9:
            b, p = pick("per", ent["per"]); p0, p1 = p["p0"], p["p1"]
            v = rng.choice([a["val"] for a in p["aspects"]] + [bval(rng)])
        else: b, p0, p1, v = anyb, bval(rng), bval(rng), bval(rng)
        n = node_of(b) if b else [9]
        return (n, 0xc0, [p0, p1, v]) if kind == "lcstat" else (n, 0xc4, [p0, p1, bval(rng)])
    if kind in ("acc", "accn"):
        pool = ent["pb"] + ent["sb"]
        if pool and rng.random() < 0.9:
            b, a = pick("acc", pool); num = a["num"]; asp = rng.choice([x["val"] for x in a["aspects"]] + [bval(rng)])
        else: b, num, asp = anyb, bval(rng), bval(rng)
        n = node_of(b) if b else [9]
        ex = rng.choice([0, 1, 2, 3, 0x80, 0x80])
        return n, (0xb8 if kind == "acc" else 0xba), [num, asp, rng.choice([0, 2, 3, 255]), ex, bval(rng)]
    if kind == "vendor":
        if ent["rev"] and rng.random() < 0.9: b, r = rng.choice(ent["rev"]); name = [ord(c) for c in str(r["cv"])]
        else: b, name = anyb, [ord(c) for c in "12345"]
        n = node_of(b) if b else [9]
        val = [ord(c) for c in rng.choice(["0", "3", "1", "30", "03", "x"])]
        return n, 0x93, [len(name)] + name + [len(val)] + val
    if kind == "pos":
        return node_of(anyb) if anyb else [9], 0xac, [bval(rng), bval(rng), rng.choice([0, 1]), bval(rng), bval(rng)]
    if kind == "devent":
        return node_of(anyb) if anyb else [9], 0xe6, [rng.choice([0, 1, 1, 2]), bval(rng), bval(rng), bval(rng)]
    # queue-bound types: everything that is neither state-bearing nor part of the start-up dialogue
    ty = rng.choice([0x82, 0x83, 0x84, 0x85, 0x86, 0x87, 0x8b, 0x91, 0x94, 0x95, 0xc1, 0xa5, 0xa8, 0xab, 0xb9, 0xc6, 0xc8, 0xc9, 0xca,
                     0xe0, 0xe4, 0xe8, 0xef, 0x8f, 0x81, 0x88, 0x89, 0x90, 0x92, rng.randrange(0x80, 0x100)])
    if ty in (0x8e, 0x8a, 0x8c, 0x8d): ty = 0x82
    d = [bval(rng) for _ in range(rng.choice([1, 2, 3, 5, 9]))]
    if ty in StateTypes: return rand_uplink(rng, sess)
    if ty == 0x86:
        d = [rng.choice([0, 1, 2, 3, 4, 5, 6, 0x10, 0x20, 0x30]), rng.choice([0, 1, 2, 3, 4, 5, 6])] + d[:1]   # SYS_ERROR with in-range codes
        if rng.random() < 0.4: d = [rng.choice([0, 1, 2, 3, 5, 6, 0x11, 0x12, 0x20, 0x21, 0x30])]                # codes that carry no parameter: one byte is the whole message
    if ty == 0x89: d = [bval(rng) for _ in range(9)]          # well-formed lengths of the start-up dialogue types
    if ty == 0x88: d = d[:1]
    if ty == 0x90 and len(d) < 2: d = d + [bval(rng)]
    return node_of(anyb) if anyb else [9], ty, d

StateTypes = {0xa0, 0xa1, 0xa2, 0xa3, 0xa9, 0xa7, 0xa6, 0xaa, 0xb0, 0xb2, 0xe1, 0xe2, 0xe3, 0xe5, 0xe7, 0xc0, 0xc4, 0xb8, 0xba, 0x93, 0x8d, 0x8c, 0xac, 0xe6}

def rand_command(rng, sess):
    """(fn, sargs, i) - valid and invalid alike"""
    cfg = sess.cfg; ent = entities(cfg)
    boards = [b["id"] for b in cfg["boards"]]; trains = cfg["trains"]
    def bad_or(x):
        # NULL, a name nobody has, and near misses of a real name (an extension, a truncation, another case): an
        # undefined name is undefined however close it is to a defined one
        r = rng.random()
        if r < 0.04: return None
        if r < 0.10: return "nosuch"
        if r < 0.17 and isinstance(x, str) and x:
            return rng.choice([x + "_x", x + "0", x[:-1] if len(x) > 1 else x + "x", x.upper() if x.upper() != x else x.lower()])
        return x
    tos = [b["id"] for b in cfg["boards"] if b["uid"][0] & 0x10]
    def to(): return bad_or(rng.choice(tos) if tos and rng.random() < 0.85 else (rng.choice(boards) if boards else "nosuch"))
    if getattr(sess, "_fn_train", None) and sess._fn_train[1] > 0 and rng.random() < 0.6: kind = "fn"
    else: kind = rng.choice(["point", "signal", "periph", "speed", "speed", "cal", "estop", "fn", "fn", "booster", "tostate", "toall", "rev", "ping", "ident", "pver", "sver"])
    if kind in ("point", "signal"):
        pool = (ent["pb"] + ent["pd"]) if kind == "point" else (ent["sb"] + ent["sd"])
        other = (ent["sb"] + ent["sd"]) if kind == "point" else (ent["pb"] + ent["pd"])
        fn = "bidib_switch_point" if kind == "point" else "bidib_set_signal"
        if pool and rng.random() < 0.9:
            _, a = rng.choice(pool); asp = rng.choice([x["id"] for x in a["aspects"]] + ["nosuch"])
            return fn, [bad_or(a["id"]), bad_or(asp)], 0
        if other: return fn, [rng.choice(other)[1]["id"], "x"], 0
        return fn, ["nosuch", "x"], 0
    if kind == "periph":
        if ent["per"] and rng.random() < 0.9:
            _, p = rng.choice(ent["per"]); return "bidib_set_peripheral", [bad_or(p["id"]), bad_or(rng.choice([x["id"] for x in p["aspects"]] + ["nosuch"]))], 0
        return "bidib_set_peripheral", ["nosuch", "x"], 0
    tr = rng.choice(trains) if trains else None
    tid = bad_or(tr["id"]) if tr else "nosuch"
    if kind == "speed":
        return "bidib_set_train_speed", [tid, to()], rng.choice([-127, -126, -125, -2, -1, 0, 0, 1, 2, 63, 125, 126, 127, 200, rng.randrange(-126, 127)])
    if kind == "cal":
        return "bidib_set_calibrated_train_speed", [tid, to()], rng.choice([-10, -9, -1, 0, 1, 5, 9, 10])
    if kind == "estop": return "bidib_emergency_stop_train", [tid, to()], 0
    if kind == "fn":
        # stay with one train for a while: function bits of a group depend on the history of the whole group
        st = getattr(sess, "_fn_train", None)
        if st and st[1] > 0 and rng.random() < 0.9: tr = st[0]; sess._fn_train = (tr, st[1] - 1); tid = tr["id"]
        elif tr and tr.get("per"): sess._fn_train = (tr, rng.choice([2, 4, 6]))
        p = rng.choice(tr["per"])["id"] if tr and tr.get("per") and rng.random() < 0.9 else "nosuch"
        return "bidib_set_train_peripheral", [tid, bad_or(p), to()], rng.choice([0, 1, 1, 1, 2])
    b = bad_or(rng.choice(boards)) if boards else "nosuch"
    if kind == "booster": return "bidib_set_booster_power_state", [b], rng.choice([0, 1])
    if kind == "tostate": return "bidib_set_track_output_state", [b], rng.choice([0, 1, 2, 3, 4, 8])
    if kind == "toall": return "bidib_set_track_output_state_all", [], rng.choice([0, 2, 3])
    if kind == "rev":
        r = rng.choice(ent["rev"])[1]["id"] if ent["rev"] and rng.random() < 0.9 else "nosuch"
        return "bidib_request_reverser_state", [bad_or(r), b], 0
    if kind == "ping": return "bidib_ping", [b], bval(rng)
    if kind == "ident": return "bidib_identify", [b], rng.choice([0, 1])
    if kind == "pver": return "bidib_get_protocol_version", [b], 0
    return "bidib_get_software_version", [b], 0


def typed_uplink(rng, sess, ty, variant=0):
    """a well-formed message of exactly this type code from a connected board (payload long enough for every type)"""
    nodes = [list(p) for p in sess.paths.values()]
    n = nodes[ty % len(nodes)] if nodes else []
    d = {0xa0: [0], 0xa1: [1], 0xa2: [0, 8, 0x05], 0xa3: [0, 35, 1], 0xa9: [0, 1, 0], 0xa7: [0, 20], 0xa6: [35, 1, 9, 0], 0xaa: [0, 35, 1, 1, 50],
         0xb0: [0x80 if variant == 0 else 0x01], 0xb2: [0, 10, 1, 120], 0xe1: [3], 0xe2: [35, 1, 1], 0xe3: [34, 17, 1], 0xe5: [35, 1, 2, 3, 130, 1, 0, 0, 0],
         0xe7: [34, 17, 33], 0xc0: [35, 1, 1], 0xc4: [35, 1, 5], 0xb8: [2, 1, 2, 0 if variant == 0 else 0x80, 0], 0xba: [2, 0, 2, 0 if variant == 0 else 0x80, 3],
         0x93: [2, 51, 48, 1, 51], 0x8d: [1, 5, 1, 2, 3, 4, 5, 6, 7], 0x8c: [1, 5, 1, 2, 3, 4, 5, 6, 7], 0xac: [35, 1, 0, 1, 2],
         0xe6: [variant, 0, 0, 0], 0x86: [1 + variant, 0, 0], 0x89: [1, 0, 1, 2, 3, 4, 5, 6, 7], 0x88: [1], 0x90: [1, 2], 0x8e: [0]}.get(ty)
    if d is None: d = [bval(rng) for _ in range(rng.choice([1, 2, 4, 9]))]
    return n, ty, d
