SPECIFICATION TSpec
CONSTANTS LQ = {}
INVARIANTS JoinedOnce NoThreadLeft RunningThreads
POSTCONDITION TraceAccepted
CHECK_DEADLOCK FALSE
