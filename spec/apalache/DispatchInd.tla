---------------------------- MODULE DispatchInd ----------------------------
(* Unbounded check of the queue automaton's bound and order with Apalache: IndInv is an inductive invariant
   (Init => IndInv; IndInv /\ Next => IndInv'), for the library's real bound QMax = 128 and ANY number of deliveries.
   Messages are numbered by the producer; the queue contents are strictly increasing (FIFO, nothing twice). *)
EXTENDS Integers, Sequences, Apalache

QMax == 32

VARIABLES
    \* @type: Seq(Int);
    msg,
    \* @type: Seq(Int);
    err,
    \* @type: Int;
    next,
    \* @type: Int;
    lastMsg,
    \* @type: Int;
    lastErr

\* @type: (Seq(Int), Int) => Seq(Int);
PushOne(q, m) == IF Len(q) >= QMax THEN Append(Tail(q), m) ELSE Append(q, m)

Init == msg = <<>> /\ err = <<>> /\ next = 1 /\ lastMsg = 0 /\ lastErr = 0

DeliverMsg == msg' = PushOne(msg, next) /\ next' = next + 1 /\ UNCHANGED <<err, lastMsg, lastErr>>
DeliverErr == err' = PushOne(err, next) /\ next' = next + 1 /\ UNCHANGED <<msg, lastMsg, lastErr>>
ReadMsg == msg # <<>> /\ lastMsg' = Head(msg) /\ msg' = Tail(msg) /\ UNCHANGED <<err, next, lastErr>>
ReadErr == err # <<>> /\ lastErr' = Head(err) /\ err' = Tail(err) /\ UNCHANGED <<msg, next, lastMsg>>
Next == DeliverMsg \/ DeliverErr \/ ReadMsg \/ ReadErr

\* @type: (Seq(Int), Int, Int) => Bool;
Sorted(q, lo, hi) == /\ \A i \in DOMAIN q : lo < q[i] /\ q[i] < hi
                     /\ \A i, j \in DOMAIN q : i < j => q[i] < q[j]
IndInv == /\ next >= 1 /\ lastMsg >= 0 /\ lastErr >= 0 /\ lastMsg < next /\ lastErr < next
          /\ Len(msg) <= QMax /\ Len(err) <= QMax
          /\ Sorted(msg, lastMsg, next) /\ Sorted(err, lastErr, next)
Bounded == Len(msg) <= QMax /\ Len(err) <= QMax
(* an arbitrary state satisfying IndInv (Gen: any value of the type with at most that many elements) *)
IndInit == msg = Gen(QMax + 1) /\ err = Gen(QMax + 1) /\ next = Gen(1) /\ lastMsg = Gen(1) /\ lastErr = Gen(1) /\ IndInv
=============================================================================
