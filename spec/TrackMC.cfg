SPECIFICATION MCSpec
CONSTANTS
  TQ = {}
  MaxUp = 2
  MaxCmd = 1
  SimDepth = 99
VIEW View
INVARIANTS TypeOk TrainsAgree FreeClears UnknownNoEffect CmdLaws
CHECK_DEADLOCK FALSE
