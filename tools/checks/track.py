"""C06 C07 C08 C09 C19 (normal mode): tracked state = fold of feedback + own commands, derived train availability,
high-level command encoding, uplink routing, secure-ACK mirrors.
TLC: TrackMC (exhaustive, bounded, small configuration) for the invariants; R: TrackSim behaviours replayed;
V: random sessions over generated configurations; every execution validated by TLC against Trace_Track."""
import random, re, json, os, shutil, tempfile, zlib
from vlib import build, drv, check, tlc, wire, cfg as cfgmod, gen_track as g

TRACK_QUIRKS = {"MirrorPos3"}

PROFILE = {
    # property: (uplink weight, command weight, tick weight, flush weight)
    "C06": (10, 1, 0, 1), "C07": (10, 4, 1, 1), "C08": (10, 1, 0, 0), "C09": (2, 10, 2, 2), "C19": (10, 1, 1, 0), "C17": (6, 4, 0, 1),
}

def build_session(rng, sid, cfgdir, pid, nev, cfg=None, secack=None):
    if cfg is None:
        cfg = cfgmod.gen(rng, nboards=rng.choice([1, 2, 3]), ntrains=rng.choice([0, 1, 2, 3]), secack=secack)
    boards = [b["id"] for b in cfg["boards"]]
    # bus tree: interface = first board; others below it, sometimes nested under a second interface, sometimes absent
    paths = {}
    for i, b in enumerate(cfg["boards"]):
        if i == 0: paths[b["id"]] = []
        elif rng.random() < 0.85: paths[b["id"]] = [i] if not (i >= 2 and cfg["boards"][1]["uid"][0] & 0x80 and cfg["boards"][1]["id"] in paths and rng.random() < 0.5) else [1, i]
    s = g.Session(sid, cfg, cfgdir, paths=paths, full=True)
    wu, wc, wt, wf = PROFILE[pid]; holds = []
    kinds = ["up"] * wu + ["hl"] * wc + ["tick"] * wt + ["flush"] * wf
    for _ in range(nev):
        k = rng.choice(kinds)
        if k == "up":
            n, ty, d = g.rand_uplink(rng, s)
            if pid == "C08" and rng.random() < 0.7:
                while ty not in (0xa0, 0xa1, 0xa2, 0xa3): n, ty, d = g.rand_uplink(rng, s)
            if pid == "C19" and rng.random() < 0.7:
                while ty not in (0xa0, 0xa1, 0xa2, 0xac): n, ty, d = g.rand_uplink(rng, s)
            s.up(n, ty, d)
        elif k == "hl":
            fn, sa, i = g.rand_command(rng, s); s.hl(fn, sa, i)
        elif k == "tick": s.tick(rng.choice([1, 2, 3]))
        else: s.flush()
        if pid in ("C08", "C07") and rng.random() < 0.1: s.lists()      # trains-on-track list = derived availability
        if pid == "C19" and rng.random() < 0.12 and s.paths:
            # reports that arrive while the board or the interface above it is stalled: the mirrors are held and have to go
            # out - each exactly once - when the stall ends (no flush call in between)
            b = rng.choice(sorted(s.paths)); pth = s.paths[b]
            who = pth if rng.random() < 0.6 else pth[:rng.randrange(0, len(pth) + 1)]
            s.up(who, 0x8e, [1], sv=1)
            for _ in range(rng.choice([1, 2, 3])):
                n, ty, d = g.rand_uplink(rng, s)
                for _ in range(20):
                    if ty in (0xa0, 0xa1, 0xa2, 0xac) and n == pth: break
                    n, ty, d = g.rand_uplink(rng, s)
                if ty != 0x8e: s.up(n, ty, d)
            s.up(who, 0x8e, [0], sv=0)
        if pid == "C17" and rng.random() < 0.15 and len(holds) < 6: holds.append(s.hold())
        if pid == "C17" and holds and rng.random() < 0.15: s.held(rng.choice(holds))
    s.flush()
    if pid == "C17":
        holds.append(s.hold())
        for k in holds: s.held(k)
        s.stop()                                   # results must survive bidib_stop unchanged
        for k in holds: s.held(k)
        for k in holds: s.release(k)               # each result is freed exactly once (ASan / LSan watch)
    return s.end()

def de_bruijn2(k):
    """indices 0..k-1 in an order in which every ordered pair (including (i, i)) is adjacent exactly once (cyclically);
    the first element is repeated at the end"""
    if k == 0: return []
    a = [0] * 3; out = []
    def db(t, p):
        if t > 2:
            if 2 % p == 0: out.extend(a[1:p + 1])
        else:
            a[t] = a[t - p]; db(t + 1, p)
            for j in range(a[t - p] + 1, k):
                a[t] = j; db(t + 1, t)
    db(1, 1)
    return out + out[:1]

def de_bruijn(k, n):
    """indices 0..k-1 in an order in which every n-tuple is adjacent exactly once (cyclically); closed by its first n-1 elements"""
    if k == 0: return []
    a = [0] * (k * n + 1); out = []
    def db(t, p):
        if t > n:
            if n % p == 0: out.extend(a[1:p + 1])
        else:
            a[t] = a[t - p]; db(t + 1, p)
            for j in range(a[t - p] + 1, k):
                a[t] = j; db(t + 1, t)
    db(1, 1)
    return out + out[:n - 1]

OCC = (0xa0, 0xa1, 0xa2, 0xa3, 0xa4, 0xa6, 0xa7, 0xac)
PAIR_FAMILY = {
    # quick: the family the property is about; thorough: every uplink element (commands: every command)
    "C07": lambda h, th: h["e"] == "up" and h["ty"] not in (0x89, 0x8a, 0x8b, 0x8c, 0x8d, 0x8e) and (th or h["ty"] in OCC + (0xb0, 0xb2, 0xc0, 0xe1, 0xe2, 0xe5)),
    "C08": lambda h, th: h["e"] == "up" and (h["ty"] in (0xa0, 0xa1, 0xa2, 0xa3) or (th and h["ty"] in OCC + (0xe1, 0xe5))),
    "C19": lambda h, th: h["e"] == "up" and h["ty"] in OCC,
    "C09": lambda h, th: h["e"] == "hl" and (th or h["fn"] in ("bidib_set_train_peripheral", "bidib_emergency_stop_train", "bidib_switch_point", "bidib_set_signal", "bidib_set_peripheral")),
}

def classify(ev):
    if ev["e"] == "up": return ("up", ev["ty"], bool(ev.get("w")), len(ev.get("qm", [])), len(ev.get("qe", [])), len(ev.get("qi", [])))
    if ev["e"] == "hl": return ("hl", ev["fn"], ev.get("ret"), bool(ev.get("w")))
    return (ev["e"],)

def run(pid, tier):
    ctx = check.Ctx(pid, tier); thorough = tier == "thorough"
    rng = random.Random(ctx.seed * 7919 + zlib.crc32(pid.encode()) % 1000)
    try: exe = build.build("asan")
    except build.BuildError as ex:
        ctx.infra_fail("library/driver build failed: %s" % ex); return ctx.finish()
    tmp = tempfile.mkdtemp(prefix="vtrk_", dir=check.TMP)
    try:
        return _run(ctx, pid, thorough, rng, exe, tmp)
    finally:
        shutil.rmtree(tmp, ignore_errors=True)

def _run(ctx, pid, thorough, rng, exe, tmp):
    # ---- 1. model checking of the specification
    from checks import track_mc
    track_mc.model_check(ctx, pid, thorough)
    # ---- 2. sessions: R (TLC-generated behaviours over the MC configuration) and V (random)
    sessions = []
    for i, (cfg, hist) in enumerate(track_mc.sim_behaviours(ctx, pid, thorough)):
        s = g.Session("sim%d" % i, cfg, os.path.join(tmp, "sim%d" % i), paths=dict(track_mc.MC_PATHS), full=True)
        for h in hist:
            if h["e"] == "up": s.up(h["n"], h["ty"], h["d"])
            elif h["e"] == "hl": s.hl(h["fn"], [x if x != "" else None for x in h["s"]], h["i"])
        s.flush(); sessions.append(s.end())
    ctx.cov["tlc_behaviours_replayed"] = len(sessions)
    # the whole alphabet of the model, each element at least once (twice in different order in the thorough tier)
    alpha = track_mc.alphabet(ctx); ctx.cov["model_alphabet_replayed"] = len(alpha)
    for rep in range(2 if thorough else 1):
        rng.shuffle(alpha)
        for ci in range(0, len(alpha), 70):
            s = g.Session("alpha%d_%d" % (rep, ci // 70), track_mc.MC_CFG, os.path.join(tmp, "alpha%d_%d" % (rep, ci)), paths=dict(track_mc.MC_PATHS), full=True)
            for h in alpha[ci:ci + 70]:
                if h["e"] == "up": s.up(h["n"], h["ty"], h["d"])
                else: s.hl(h["fn"], [x if x != "" else None for x in h["s"]], h["i"])
            s.flush(); sessions.append(s.end())
    # pair coverage: every ORDERED PAIR of elements of (a family of) the model's alphabet occurs adjacently in some session
    # (a de Bruijn sequence of order 2 over the family) - what the second event does may depend on what the first left
    # behind (addresses on a free segment, the same decoders with another orientation, the other functions of a group).
    # Node-table notices are left out (they change who is connected; C15 owns them).
    fam = PAIR_FAMILY.get(pid)
    if fam:
        sel = [h for h in sorted(alpha, key=lambda h: json.dumps(h, sort_keys=True)) if fam(h, thorough)]
        seq = de_bruijn2(len(sel)); ctx.cov["pair_alphabet"] = len(sel); ctx.cov["ordered_pairs_replayed"] = len(sel) ** 2
        L = 160
        for ci in range(0, len(seq), L):
            part = seq[max(ci - 1, 0):ci + L]                     # one element of overlap: no pair is lost at a cut
            sp = g.Session("pair%d" % (ci // L), track_mc.MC_CFG, os.path.join(tmp, "pair%d" % ci), paths=dict(track_mc.MC_PATHS), full=True)
            for k in part:
                h = sel[k]
                if h["e"] == "up": sp.up(h["n"], h["ty"], h["d"])
                else: sp.hl(h["fn"], [x if x != "" else None for x in h["s"]], h["i"])
            sp.flush(); sessions.append(sp.end())
    # triple coverage for ONE detector: every ordered triple of the reports that concern segment g1 of board bB (occupied,
    # free, addresses with both orientations / none, a multiple report with the bit set / clear) - three steps is what the
    # occupancy logic can depend on: the flag, the address list and what the last report left of both
    if pid in ("C07", "C08", "C19"):
        one = [([1], 0xa0, [0]), ([1], 0xa1, [0]), ([1], 0xa3, [0, 35, 1]), ([1], 0xa3, [0, 35, 129]), ([1], 0xa3, [0, 0, 0]),
               ([1], 0xa2, [0, 8, 1]), ([1], 0xa2, [0, 8, 0])]
        seq3 = de_bruijn(len(one), 3); ctx.cov["ordered_triples_replayed"] = len(one) ** 3
        for ci in range(0, len(seq3), 120):
            part = seq3[max(ci - 2, 0):ci + 120]
            st3 = g.Session("tri%d" % (ci // 120), track_mc.MC_CFG, os.path.join(tmp, "tri%d" % ci), paths=dict(track_mc.MC_PATHS), full=True)
            for k in part: st3.up(*one[k])
            st3.flush(); sessions.append(st3.end())
    # every message type code once, from a connected board (C06: destination is a function of type and content)
    if pid in ("C06", "C12") or thorough:
        for mode in (0, 1):
            s = g.Session("types%d" % mode, track_mc.MC_CFG, os.path.join(tmp, "types%d" % mode), paths=dict(track_mc.MC_PATHS), full=(mode == 0))
            for ty in range(256):
                if ty in (0x8e, 0x8a): continue
                n, t2, d = g.typed_uplink(rng, s, ty, variant=mode)
                s.up(n, t2, d)
            s.flush(); sessions.append(s.end())
    if pid == "C06":
        # unbounded step (auxiliary, Apalache): the queue automaton's bound / order / no-duplicate invariant is inductive for
        # any number of deliveries (DispatchInd; quick QMax = 32, thorough 64; the library's 128 was run once: 914 s, no error)
        ok, text = tlc.apalache_inductive("DispatchInd.tla", 64 if thorough else 32, timeout=900)
        ctx.cov["apalache_inductive_invariant"] = text[:300]
        if ok is False: ctx.infra_fail("DispatchInd: the inductive invariant is violated (specification defect): " + text[-600:])
        elif ok is None: ctx.note("Apalache step skipped: " + text[:200])
    # queue bound (C06): fill levels around 128 without reading, then single reads and a drain
    if pid == "C06":
        for fill in ((126, 130) if not thorough else (1, 127, 128, 129, 200)):
            s = g.Session("fill%d" % fill, track_mc.MC_CFG, os.path.join(tmp, "fill%d" % fill), paths=dict(track_mc.MC_PATHS), full=False)
            for i in range(fill):
                s.up([1], 0x82, [i & 255, i >> 8], drain=False)
                if i % 3 == 0: s.up([], 0x86, [1, i & 255], drain=False)       # error queue, a third as fast
            for _ in range(3): s.read("msg"); s.read("err")
            s.up([1], 0x95, [7, 7], drain=False); s.read("msg"); s.drain(); s.read("msg"); s.read("err")
            s.flush(); sessions.append(s.end())
    # function groups (C09): every function on, off and on again in different orders - each command has to carry the
    # tracked state of all other functions of its group
    if pid == "C09":
        s = g.Session("fnsweep", track_mc.MC_CFG, os.path.join(tmp, "fnsweep"), paths=dict(track_mc.MC_PATHS), full=True)
        for t in track_mc.MC_CFG["trains"]:
            fs = [p["id"] for p in t["per"]]
            for order, v in ((fs, 1), (fs[::2], 0), (fs[::-1], 1), (fs[1::2], 0), (fs, 0), (fs[::-1], 1)):
                for f in order: s.hl("bidib_set_train_peripheral", [t["id"], f, "bA"], v)
            for sp in (-126, -1, 0, 1, 0, 126, 0, -5, 0): s.hl("bidib_set_train_speed", [t["id"], "bA"], sp)
        s.flush(); sessions.append(s.end())
    # field-value sweeps of the conversions (C07): every current / voltage code
    if pid == "C07":
        s = g.Session("sweep", track_mc.MC_CFG, os.path.join(tmp, "sweep"), paths=dict(track_mc.MC_PATHS), full=True)
        vals = list(range(256)) if thorough else sorted(set(g.BND + [14, 17, 62, 65, 126, 129, 190, 193, 249, 252]))
        for v in vals:
            s.up([1], 0xa7, [0, v]); s.up([], 0xb2, [0, v, 1, 255 - v, 2, v])
        s.flush(); sessions.append(s.end())
    if pid == "C17":
        # shapes at the edges of the result structs: a train without functions, boards without sections, nothing at all
        edge = [cfgmod.state_tests_like(), {"boards": [], "track": [], "trains": []}]
        e3 = cfgmod.gen(rng, nboards=2, ntrains=2)
        for t in e3["trains"]: t["per"] = []
        e3["track"] = e3["track"][:1]
        for k in ("pb", "pd", "sb", "sd", "per", "seg", "rev"): e3["track"][0][k] = []
        edge.append(e3)
        for i, ec in enumerate(edge):
            s = g.Session("edge%d" % i, ec, os.path.join(tmp, "edge%d" % i), full=True)
            hs = [s.hold()]
            for _ in range(12):
                if rng.random() < 0.6: s.up(*g.rand_uplink(rng, s))
                else:
                    fn, sa, iv = g.rand_command(rng, s); s.hl(fn, sa, iv)
            hs.append(s.hold())
            for k in hs: s.held(k)
            s.stop()
            for k in hs: s.held(k)
            for k in hs: s.release(k)
            sessions.append(s.end())
    nrand = 60 if thorough else 10
    for i in range(nrand):
        sessions.append(build_session(rng, "rnd%d" % i, os.path.join(tmp, "rnd%d" % i), pid, rng.choice([40, 80]) if thorough else 40,
                                      secack=(rng.choice([1, 1, 0, None]) if pid == "C19" else None)))
    res = drv.run(exe, [s.s for s in sessions], timeout=120)
    items = []
    for s in sessions:
        rr = res.get(s.sid)
        if rr is None or rr.status != "ok":
            ctx.violation("session %s: library process ended with %s (code %s) while executing a normal-mode script" % (s.sid, rr.status if rr else "missing", rr.code if rr else "?"),
                          {"kind": "crash", "script": s.s.text(), "cfg": s.cfg, "stderr": rr.stderr[-4000:] if rr else ""}); continue
        ev, probs = g.to_events(s, rr)
        if probs:
            ctx.note("session %s skipped: %s" % (s.sid, "; ".join(probs))); ctx.cov.setdefault("skipped_sessions", 0); ctx.cov["skipped_sessions"] += 1
            continue
        items.append((s, ev))
        for e in ev:
            ctx.cov["evaluations"] += 1; ctx.distinct(classify(e))
    if not items: ctx.infra_fail("no session produced a trace")
    # Quirk switches (DESIGN.md section 6).  Known findings of *other* properties describe behaviour this property does
    # not constrain; the specification is run with those quirks on.  Known findings of *this* property are applied only
    # to executions the literal specification refuses: if the quirk explains the execution completely it is reported as
    # KNOWN-FINDING, otherwise as a violation.
    base, own, other = check.quirk_cfg("Trace_Track.cfg", pid)
    withown, _, _ = check.quirk_cfg("Trace_Track.cfg", pid, with_own=True)
    own = {k: v for k, v in own.items() if k in TRACK_QUIRKS}
    ctx.cov["quirks_of_other_properties_applied"] = other
    rej = check.validate_scripts(ctx, "Trace_Track.tla", "_tt.cfg", items, timeout=1800, batch=8, extra_files={"_tt.cfg": base})
    for s, ev, k, r in rej:
        if own:
            acc, consumed, r2 = check.validate("Trace_Track.tla", "_tk.cfg", ev, timeout=900, extra_files={"_tk.cfg": withown}); tlc.cleanup(r2)
            if acc:
                for kk, vv in own.items(): ctx.known_finding(kk, vv)
                ctx.cov["traces_validated_against_impl"] += 1
                ctx.cov.setdefault("explained_by_known_finding", 0); ctx.cov["explained_by_known_finding"] += 1
                continue
            k, r = consumed, r2
        what = "execution %s is not a behaviour of the specification: event %d %s refused%s" % (
            s.sid, k, json.dumps({x: ev[k][x] for x in ev[k] if x not in ("st", "cfg")})[:400] if k < len(ev) else "(end)",
            (" / invariant %s violated" % r.violation) if r.violation else "")
        ctx.violation(what, {"kind": "trace", "module": "Trace_Track.tla", "cfg": "Trace_Track.cfg", "script": s.s.text(), "config": s.cfg, "regen": s.meta(),
                             "events": ev, "refused_at": k})
    # C17 "no uninitialised field": the same kind of session on a plain -O0 build under Valgrind Memcheck; the driver
    # prints every field of every result, so reading an undefined field is reported at the print (auxiliary detector,
    # DESIGN.md section 9: definedness is not a value a trace can carry)
    if pid == "C17":
        try:
            exe_p = build.build("plain")
            vs = [build_session(rng, "vg%d" % i, os.path.join(tmp, "vg%d" % i), "C17", 25) for i in range(6 if thorough else 2)]
            vres = drv.run(exe_p, [x.s for x in vs], valgrind=True, timeout=900)
            gl = next(iter(vres.values())).global_stderr if vres else ""
            blocks = [b for b in re.split(r"\n==\d+== \n", gl) if "ninitialised" in b or "Invalid free" in b or "Invalid read" in b or "Invalid write" in b]
            ctx.cov["memcheck_sessions"] = len(vs); ctx.cov["memcheck_reports"] = len(blocks)
            for x in vs:
                rr = vres.get(x.sid)
                if rr is None or rr.status != "ok" and not blocks:
                    ctx.infra_fail("memcheck session %s ended with %s" % (x.sid, rr.status if rr else "missing"))
            if blocks:
                ctx.violation("Valgrind Memcheck: a query result holds an undefined / invalid value: " + " | ".join(l.strip() for l in blocks[0].splitlines()[:8])[:900],
                              {"kind": "memcheck", "script": vs[0].s.text(), "config": vs[0].cfg, "report": "\n\n".join(blocks[:5])[:8000]})
        except build.BuildError as ex:
            ctx.infra_fail("plain build failed: %s" % ex)
    # C06 "readers racing the receiver": concurrent queue sessions under the baton scheduler (Trace_Lin)
    if pid == "C06":
        from checks import conc_api
        conc_api.sessions(ctx, pid, thorough, rng, exe, tmp)
    for s, ev in items[:2]:
        ctx.sample({"session": s.sid, "events": [{x: e[x] for x in e if x not in ("st", "cfg")} for e in ev[1:8]]})
    ctx.cov["rule"] = ("cases = events executed on the real library in normal mode; distinct = distinct (event kind, message type or function, "
                       "return value, wire output yes/no, queue destination) tuples; after every event the full projection of all getters is compared by TLC")
    ctx.assumptions += ["sequential scripts; bus simulator answers only the start-up dialogue (no automatic replies), so every state change is a scripted event",
                        "start-up traffic is drained before the first validated event (start-up order is C20's subject)",
                        "fields documented as meaningless under a flag (current when not known, ...) are not compared (Track.Norm*)"]
    return ctx.finish()
