SPECIFICATION ReceiverSpec
CONSTANTS
  MsgPool <- Pool
  Caps = {64}
  MinCap = 64
  Tokens <- Toks
  MaxAdd = 0
  MaxTok = 4
INVARIANTS RxEquivDecl RxBound
CHECK_DEADLOCK FALSE
