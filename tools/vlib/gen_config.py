"""Configuration faults.
(1) semantic single-fault mutations of a valid configuration model (C14): one function per class named in the statement,
    each returns every applicable position: list of (class, where, mutated cfg).  The mutated model is rendered by
    cfg.write() like any other and judged by Config!Accept on the TLA+ side.
(2) document trees (C13): YAML text <-> tree JSON for ConfigDoc.tla (TLC enumerates the structural single-fault
    mutants), tree -> YAML text, text-level truncation / noise.
"""
import copy, json, random

ACC_KEYS = ("pb", "pd", "sb", "sd")

def _c(cfg): return copy.deepcopy(cfg)

def _accs(cfg):
    """(board index, key, index) of every accessory / peripheral record"""
    for bi, b in enumerate(cfg["track"]):
        for k in ACC_KEYS + ("per",):
            for i in range(len(b.get(k, []))): yield bi, k, i

def mutations(cfg, rng):
    """every single-fault mutation class of the C14 statement at every applicable position"""
    out = []
    def add(cls, where, c): out.append((cls, where, c))
    B = cfg["boards"]; T = cfg["track"]; R = cfg["trains"]
    # duplicate board ids / unique ids
    for i in range(len(B)):
        for j in range(len(B)):
            if i == j: continue
            c = _c(cfg); old = c["boards"][j]["id"]; c["boards"][j]["id"] = B[i]["id"]
            c["track"] = [t for t in c["track"] if t["id"] != old]          # single fault: no section is left without its board
            add("dup_board_id", "boards[%d].id := boards[%d].id" % (j, i), c)
            c = _c(cfg); c["boards"][j]["uid"] = list(B[i]["uid"])
            add("dup_board_uid", "boards[%d].uid := boards[%d].uid" % (j, i), c)
    # a board in the track file that the board file does not declare
    for bi in range(len(T)):
        c = _c(cfg); c["track"][bi]["id"] = "nosuchboard"
        add("track_board_undeclared", "track[%d].id" % bi, c)
    # duplicate ids per entity kind (same board and across boards)
    kinds = {"point": ("pb", "pd"), "signal": ("sb", "sd"), "peripheral": ("per",), "segment": ("seg",), "reverser": ("rev",)}
    for kind, keys in kinds.items():
        recs = [(bi, k, i) for bi, b in enumerate(T) for k in keys for i in range(len(b.get(k, [])))]
        for a in recs:
            for b2 in recs:
                if a == b2: continue
                c = _c(cfg); c["track"][b2[0]][b2[1]][b2[2]]["id"] = T[a[0]][a[1]][a[2]]["id"]
                # the initial value list refers to ids: keep the record's own initial (it names an aspect, not the record)
                add("dup_%s_id" % kind, "track[%d].%s[%d].id := track[%d].%s[%d].id" % (b2 + a), c)
    for i in range(len(R)):
        for j in range(len(R)):
            if i == j: continue
            c = _c(cfg); c["trains"][j]["id"] = R[i]["id"]; add("dup_train_id", "trains[%d].id := trains[%d].id" % (j, i), c)
    # duplicate numbers / ports / segment addresses / CVs on one board (same entity kind)
    for bi, b in enumerate(T):
        for k, f, cls in (("pb", "num", "dup_point_number"), ("sb", "num", "dup_signal_number"), ("per", "num", "dup_peripheral_number"),
                          ("seg", "addr", "dup_segment_address"), ("rev", "cv", "dup_reverser_cv")):
            L = b.get(k, [])
            for i in range(len(L)):
                for j in range(len(L)):
                    if i == j: continue
                    c = _c(cfg); c["track"][bi][k][j][f] = L[i][f]
                    add(cls, "track[%d].%s[%d].%s := [%d]" % (bi, k, j, f, i), c)
        L = b.get("per", [])
        for i in range(len(L)):
            for j in range(len(L)):
                if i == j: continue
                c = _c(cfg); c["track"][bi]["per"][j]["p0"] = L[i]["p0"]; c["track"][bi]["per"][j]["p1"] = L[i]["p1"]
                add("dup_peripheral_port", "track[%d].per[%d].port := [%d]" % (bi, j, i), c)
    # a DCC address shared between trains and / or accessories
    dccs = [("train", i, None, None) for i in range(len(R))] + [("acc", bi, k, i) for bi, b in enumerate(T) for k in ("pd", "sd") for i in range(len(b.get(k, [])))]
    def getd(c, d): return c["trains"][d[1]] if d[0] == "train" else c["track"][d[1]][d[2]][d[3]]
    for a in dccs:
        for b2 in dccs:
            if a == b2: continue
            c = _c(cfg); src = getd(cfg, a); dst = getd(c, b2); dst["al"] = src["al"]; dst["ah"] = src["ah"]
            add("shared_dcc_%s_%s" % (b2[0], a[0]), "%s := %s" % (b2, a), c)
    # aspects: duplicate ids / values, none at all, initial naming none of them
    for bi, k, i in _accs(cfg):
        rec = T[bi][k][i]; A = rec["aspects"]
        for x in range(len(A)):
            for y in range(len(A)):
                if x == y: continue
                c = _c(cfg); c["track"][bi][k][i]["aspects"][y]["id"] = A[x]["id"]
                if rec.get("initial") == A[y]["id"]: c["track"][bi][k][i]["initial"] = A[x]["id"]
                add("dup_aspect_id", "track[%d].%s[%d].aspects[%d].id := [%d]" % (bi, k, i, y, x), c)
                if k in ("pb", "sb", "per"):
                    c = _c(cfg); c["track"][bi][k][i]["aspects"][y]["val"] = A[x]["val"]
                    add("dup_aspect_value", "track[%d].%s[%d].aspects[%d].value := [%d]" % (bi, k, i, y, x), c)
        c = _c(cfg); c["track"][bi][k][i]["aspects"] = []; c["track"][bi][k][i]["initial"] = None
        add("no_aspects", "track[%d].%s[%d].aspects := []" % (bi, k, i), c)
        c = _c(cfg); c["track"][bi][k][i]["initial"] = "nosuchaspect"
        add("initial_undeclared", "track[%d].%s[%d].initial" % (bi, k, i), c)
    # trains: calibration, speed steps, function bits
    for i, t in enumerate(R):
        for cal, why in (([10, 20, 30, 40, 50, 60, 70, 80], "8 values"), ([10, 20, 30, 40, 50, 60, 70, 80, 90, 100], "10 values"),
                         ([10, 20, 30, 40, 50, 60, 70, 80, 127], "a value of 127"), ([10, 20, 30, 40, 255, 60, 70, 80, 90], "a value of 255")):
            c = _c(cfg); c["trains"][i]["cal"] = cal; add("bad_calibration", "trains[%d].calibration: %s" % (i, why), c)
        for st in (0, 13, 15, 27, 29, 125, 127, 128, 255):
            c = _c(cfg); c["trains"][i]["steps"] = st; add("bad_speed_steps", "trains[%d].dcc-speed-steps := %d" % (i, st), c)
        P = t.get("per", [])
        for j in range(len(P)):
            for bit in (32, 33, 255):
                c = _c(cfg); c["trains"][i]["per"][j]["bit"] = bit; add("bad_function_bit", "trains[%d].per[%d].bit := %d" % (i, j, bit), c)
            for j2 in range(len(P)):
                if j == j2: continue
                c = _c(cfg); c["trains"][i]["per"][j2]["bit"] = P[j]["bit"]; add("dup_function_bit", "trains[%d].per[%d].bit := [%d]" % (i, j2, j), c)
    return out

# ------------------------------------------------------------------ document trees (C13)
def V(s): return {"t": "v", "s": str(s)}
def Mp(*kv): return {"t": "m", "kv": [{"k": k, "v": v} for k, v in kv]}
def Sq(items): return {"t": "s", "it": list(items)}
def _hx(b): return "0x%02X" % b

def doc_trees(cfg):
    """the three files of a configuration model as document trees (same layout as cfg.render_*)"""
    def asp(a): return Sq([Mp(("id", V(x["id"])), ("value", V(_hx(x["val"])))) for x in a])
    def dasp(a): return Sq([Mp(("id", V(x["id"])), ("ports", Sq([Mp(("port", V(_hx(p))), ("value", V(_hx(v)))) for p, v in x["ports"]]))) for x in a])
    board = Mp(("boards", Sq([Mp(*([("id", V(b["id"])), ("unique-id", V("0x" + "".join("%02X" % x for x in b["uid"])))] +
                                   ([("features", Sq([Mp(("number", V(_hx(n))), ("value", V(_hx(v)))) for n, v in b["features"]]))] if b.get("features") else [])))
                             for b in cfg["boards"]])))
    tb = []
    for b in cfg["track"]:
        kv = [("id", V(b["id"]))]
        for key, name in (("pb", "points-board"), ("pd", "points-dcc"), ("sb", "signals-board"), ("sd", "signals-dcc")):
            if b.get(key):
                items = []
                for a in b[key]:
                    r = [("id", V(a["id"]))]
                    if key in ("pb", "sb"): r += [("number", V(_hx(a["num"]))), ("aspects", asp(a["aspects"]))]
                    else: r += [("dcc-address", V("0x%02X%02X" % (a["ah"], a["al"]))), ("extended", V(_hx(a["ext"]))), ("aspects", dasp(a["aspects"]))]
                    if a.get("initial") is not None: r.append(("initial", V(a["initial"])))
                    items.append(Mp(*r))
                kv.append((name, Sq(items)))
        if b.get("per"):
            kv.append(("peripherals", Sq([Mp(*([("id", V(p["id"])), ("number", V(_hx(p["num"]))), ("port", V("0x%02X%02X" % (p["p1"], p["p0"]))), ("aspects", asp(p["aspects"]))] +
                                               ([("initial", V(p["initial"]))] if p.get("initial") is not None else []))) for p in b["per"]])))
        if b.get("seg"):
            kv.append(("segments", Sq([Mp(("id", V(s["id"])), ("address", V(_hx(s["addr"]))), ("length", V(s.get("length", "10.0cm")))) for s in b["seg"]])))
        if b.get("rev"):
            kv.append(("reversers", Sq([Mp(("id", V(r["id"])), ("cv", V(r["cv"]))) for r in b["rev"]])))
        tb.append(Mp(*kv))
    track = Mp(("boards", Sq(tb)))
    tr = []
    for t in cfg["trains"]:
        kv = [("id", V(t["id"])), ("dcc-address", V("0x%02X%02X" % (t["ah"], t["al"]))), ("dcc-speed-steps", V(t["steps"]))]
        if t.get("cal"): kv.append(("calibration", Sq([V(c) for c in t["cal"]])))
        if t.get("per") or t.get("cal"):
            kv.append(("peripherals", Sq([Mp(*([("id", V(p["id"])), ("bit", V(p["bit"]))] + ([("initial", V(p["initial"]))] if p.get("initial") is not None else []))) for p in t.get("per", [])])))
        tr.append(Mp(*kv))
    train = Mp(("trains", Sq(tr)))
    return {"board": board, "track": track, "train": train}

def emit(n, ind=0):
    """tree -> YAML text (block style)"""
    pad = " " * ind
    if n["t"] == "v": return pad + n["s"] + "\n"
    if n["t"] == "m":
        if not n["kv"]: return pad + "{}\n"
        o = ""
        for e in n["kv"]:
            v = e["v"]
            if v["t"] == "v": o += "%s%s: %s\n" % (pad, e["k"], v["s"])
            elif (v["t"] == "m" and not v["kv"]): o += "%s%s: {}\n" % (pad, e["k"])
            elif (v["t"] == "s" and not v["it"]): o += "%s%s: []\n" % (pad, e["k"])
            else: o += "%s%s:\n%s" % (pad, e["k"], emit(v, ind + 2))
        return o
    if not n["it"]: return pad + "[]\n"
    o = ""
    for it in n["it"]:
        body = emit(it, ind + 2)
        o += pad + "- " + body[ind + 2:]
    return o

FILES = {"board": "bidib_board_config.yml", "track": "bidib_track_config.yml", "train": "bidib_train_config.yml"}

def full_cfg():
    """a small configuration that uses every section and every optional key of the layout"""
    from . import cfg as cfgmod
    c = cfgmod.state_tests_like()
    c["boards"].append({"id": "board2", "uid": [0x05, 0, 0x0D, 0x7A, 0, 3, 0xEE], "features": []})
    c["track"][0]["sd"] = [{"id": "signal2", "al": 0x30, "ah": 0x11, "ext": 1, "initial": "go",
                            "aspects": [{"id": "go", "ports": [[2, 1]]}, {"id": "halt", "ports": [[2, 0]]}]}]
    c["track"].append({"id": "board2", "pb": [], "pd": [], "sb": [], "sd": [], "per": [], "rev": [], "seg": [{"id": "seg9", "addr": 9}]})
    c["trains"][0]["cal"] = [5, 15, 30, 45, 60, 75, 90, 105, 120]
    c["trains"][0]["per"][0]["initial"] = 1
    return c

def text_faults(texts, rng, n_noise):
    """text-level classes: missing / empty file, truncation at every line end and inside a token, byte noise.
    texts: {"board": str, ...} -> list of (class, where, {"board": str|None, ...})"""
    out = []
    for name, t in texts.items():
        def with_(x): d = dict(texts); d[name] = x; return d
        out.append(("file_missing", name, with_(None)))
        out.append(("file_empty", name, with_("")))
        out.append(("file_only_comment", name, with_("# nothing here\n")))
        lines = t.splitlines(True)
        for k in range(1, len(lines)):
            out.append(("truncated_at_line", "%s:%d" % (name, k), with_("".join(lines[:k]))))
        for k in range(1, len(lines), 2):                       # inside a token: the key is there, colon / value cut off
            cut = "".join(lines[:k]) + lines[k][:max(1, len(lines[k]) // 2)]
            out.append(("truncated_in_token", "%s:%d" % (name, k), with_(cut)))
        b = t.encode()
        for k in range(n_noise):
            bb = bytearray(b); kind = rng.randrange(5)
            for _ in range(rng.choice([1, 1, 2, 5])):
                p = rng.randrange(len(bb))
                if kind == 0: bb[p] = rng.randrange(256)
                elif kind == 1: bb[p] = rng.choice(b":-[]{}#&*!|>'\"%@`,\t\n\x00\xff")
                elif kind == 2: del bb[p]
                elif kind == 3: bb.insert(p, rng.choice(b":-[]{}#&*!|>'\"%@`,\t\n "))
                else: bb[p:p] = bytes(rng.randrange(256) for _ in range(rng.choice([1, 3, 30])))
            out.append(("byte_noise", "%s#%d" % (name, k), with_(bytes(bb))))
    return out
