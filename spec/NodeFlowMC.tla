----------------------------- MODULE NodeFlowMC -----------------------------
(* Bounded exhaustive model of NodeFlow: small address tree, request types chosen to straddle the
   48-byte budget, answers by relation to the outstanding requests, nested stall notices, time steps.
   The transmit buffer (pend) is drained after every step: it is an observation, not behaviour. *)
EXTENDS NodeFlow, TLC

CONSTANTS Addrs,        \* addresses used (set of sequences)
          Types,        \* request types
          AnsTypes,     \* uplink types
          MaxSend, MaxUp, MaxStall, MaxTick

VARIABLE cnt            \* [send, up, stall, tick]
mcvars == <<nodes, now, seqOn, ghost, cnt>>

MCInit == Init /\ cnt = [send |-> 0, up |-> 0, stall |-> 0, tick |-> 0]

MCSend(n, ty) ==
    /\ cnt.send < MaxSend
    /\ LET ns2 == SendNs(nodes, n, ty, <<>>) IN
       /\ nodes' = ClearPend(ns2)
       /\ ghost' = GhostStep([ghost EXCEPT !.sub = FPut(@, n, FGet(@, n, 0) + 1)], nodes, ns2, nodes, {n}, {})
    /\ cnt' = [cnt EXCEPT !.send = @ + 1]
    /\ UNCHANGED <<now, seqOn>>
MCUp(n, a) ==
    /\ cnt.up < MaxUp
    /\ LET ns2 == UplinkNs(nodes, n, a) IN
       /\ nodes' = ClearPend(ns2)
       /\ ghost' = GhostStep(ghost, nodes, ns2, nodes, {n}, {})
    /\ cnt' = [cnt EXCEPT !.up = @ + 1]
    /\ UNCHANGED <<now, seqOn>>
MCStall(n, v) ==
    /\ cnt.stall < MaxStall
    /\ LET ns2 == StallNs(nodes, n, v) IN
       /\ nodes' = ClearPend(ns2)
       /\ ghost' = GhostStep(ghost, nodes, ns2, IF v = 0 THEN StallMid(nodes, n, v) ELSE nodes,
                             {n}, IF v = 0 THEN {a \in DOMAIN ns2 : IsPfx(n, a)} ELSE {})
    /\ cnt' = [cnt EXCEPT !.stall = @ + 1]
    /\ UNCHANGED <<now, seqOn>>
MCTick == /\ cnt.tick < MaxTick
          /\ Tick(2)
          /\ cnt' = [cnt EXCEPT !.tick = @ + 1]

MCNext == \/ \E n \in Addrs, ty \in Types : MCSend(n, ty)
          \/ \E n \in Addrs, a \in AnsTypes : MCUp(n, a)
          \/ \E n \in Addrs, v \in {0, 1} : MCStall(n, v)
          \/ MCTick
MCSpec == MCInit /\ [][MCNext]_mcvars

MC_Addrs == { <<>>, <<1>>, <<1, 1>>, <<2>> }
MC_AddrsSmall == { <<>>, <<1>>, <<1, 1>> }
MC_AddrsDeep == { <<>>, <<1>>, <<1, 1>>, <<1, 1, 1>>, <<2>> }

ASSUME RespInfoOk
=============================================================================
