/* proj.c - projection of the library's query API into JSON (abstraction function) */
#define _GNU_SOURCE
#include <string.h>
#include <stdlib.h>
#include "vdrv.h"
void proj_all(void) { fputs("null", vout); }
void proj_get(const char *fn, int n, char **tok) { (void) fn; (void) n; (void) tok; fputs("null", vout); }
