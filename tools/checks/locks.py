"""C11: no call blocks forever.  Lock programs (acquire / release sequences per call, per thread) are recorded from the
real library through link-time wrappers for every public function x argument class, every uplink type on the receiver
thread, start / stop with accepted and rejected configurations; TLC validates every program against Locks (balanced,
no self-deadlock, one acyclic global nesting order: Trace_Locks) and explores all interleavings of K concurrently
running distinct programs for deadlocks (LocksMC).  Waits that are not lock-lock cycles (a lock held while waiting for
a message the receiver needs that lock to deliver) are exercised by start-ups with notices injected into the
dialogues; a start that does not return is reported through the driver's watchdog."""
import random, os, json, shutil, tempfile, re, copy
from vlib import build, drv, check, tlc, wire, cfg as cfgmod, gen_track as g
from checks import track_mc, boot

GETTERS1 = ["bidib_get_point_state", "bidib_get_signal_state", "bidib_get_peripheral_state", "bidib_get_segment_state", "bidib_get_reverser_state",
            "bidib_get_train_state", "bidib_get_booster_state", "bidib_get_track_output_state", "bidib_get_train_position", "bidib_get_nodeaddr",
            "bidib_get_uniqueid", "bidib_get_train_dcc_addr", "bidib_get_board_connected", "bidib_get_train_on_track", "bidib_get_board_features",
            "bidib_get_board_points", "bidib_get_board_signals", "bidib_get_board_peripherals", "bidib_get_board_segments", "bidib_get_board_reversers",
            "bidib_get_train_peripherals", "bidib_get_point_aspects", "bidib_get_signal_aspects", "bidib_get_peripheral_aspects"]

class Rec:
    """a normal-mode session with lock tracing; every traced step is followed by 'locks dump'"""
    def __init__(self, sid, cfg, cfgdir, tree=None, paths=None, bus_opts=(), autoreply=True):
        self.sess = g.Session(sid, cfg, cfgdir, tree=tree, paths=paths, boot=True, bus_opts=bus_opts)   # boot=True: replies on, no drain rounds
        s = self.sess.s
        # trace the start itself: insert "locks on" before the start line
        i = self.sess.start_line
        s.lines.insert(i, "locks on"); s.events.insert(i, None)
        self.names = {}          # line index of a "locks dump" -> name
        self._dump("start")
    def _dump(self, name):
        s = self.sess.s; self.names[len(s.lines)] = name; s.add("locks dump")
    def step(self, line, name, wait=False):
        s = self.sess.s; s.add(line)
        if wait: s.add("waitidle")
        self._dump(name)
    def end(self):
        s = self.sess.s; s.add("stop"); self._dump("stop"); s.add("locks off")
        return self

def programs_of(dump):
    """'locks' list -> {thread: [[op, lock], ...]}"""
    out = {}
    for thr, op, lk, _ in dump: out.setdefault(thr, []).append([op, lk])
    return out

def api_steps(rng, rec, cfg, thorough):
    ent = g.entities(cfg); sess = rec.sess
    boards = [b["id"] for b in cfg["boards"]]; trains = [t["id"] for t in cfg["trains"]]
    ids = {"point": [x["id"] for _, x in ent["pb"] + ent["pd"]], "signal": [x["id"] for _, x in ent["sb"] + ent["sd"]],
           "peripheral": [x["id"] for _, x in ent["per"]], "segment": [x["id"] for _, x in ent["seg"]], "reverser": [x["id"] for _, x in ent["rev"]],
           "train": trains, "board": boards}
    def cls(fn):
        for k in ("point", "signal", "peripheral", "segment", "reverser"):
            if k in fn and "board_" not in fn: return k
        if "train" in fn: return "train"
        return "board"
    # getters: known / unknown / NULL
    for fn in GETTERS1:
        pool = ids[cls(fn)]
        for arg, tag in ([(pool[0], "known")] if pool else []) + [("nosuch", "unknown"), ("~", "null")]:
            rec.step("get %s %s" % (fn, arg), "%s(%s)" % (fn, tag))
    for what in ("all", "lists"): rec.step("get %s" % what, "snapshot+derived getters" if what == "all" else "enumeration getters")
    if trains and ids["train"]:
        t = next((t for t in cfg["trains"] if t.get("per")), None)
        if t: rec.step("get bidib_get_train_peripheral_state %s %s" % (t["id"], t["per"][0]["id"]), "bidib_get_train_peripheral_state(known)")
    rec.step("bundle take", "getters for unknown ids / NULL (bundle)"); rec.sess.s.add("bundle free 0")
    # high-level commands: the model alphabet classes via the random generator (valid, unknown, NULL, disconnected, wrong class, bad value)
    seen = set()
    for _ in range(400 if thorough else 150):
        fn, sa, iv = g.rand_command(rng, sess)
        key = (fn, tuple("N" if x is None else ("u" if x == "nosuch" else "k") for x in sa), iv in (0, 1))
        if key in seen: continue
        seen.add(key)
        toks = []
        if fn in ("bidib_set_train_speed", "bidib_set_calibrated_train_speed"): toks = [g._t(sa[0]), str(iv), g._t(sa[1])]
        elif fn == "bidib_set_train_peripheral": toks = [g._t(sa[0]), g._t(sa[1]), str(iv), g._t(sa[2])]
        elif fn in ("bidib_set_booster_power_state", "bidib_set_track_output_state", "bidib_ping", "bidib_identify"): toks = [g._t(sa[0]), str(iv)]
        elif fn == "bidib_set_track_output_state_all": toks = [str(iv)]
        else: toks = [g._t(x) for x in sa]
        rec.step("hl %s %s" % (fn, " ".join(toks)), "%s%s" % (fn, key[1]))
    # low-level: one per source file plus the two that take state locks
    for line, nm in (("ll bidib_send_sys_ping 00 00 00 07", "bidib_send_sys_ping"), ("ll bidib_send_feature_get 00 00 00 01", "bidib_send_feature_get"),
                     ("ll bidib_send_bm_mirror_occ 00 00 00 01", "bidib_send_bm_mirror_occ"), ("ll bidib_send_boost_query 00 00 00", "bidib_send_boost_query"),
                     ("ll bidib_send_accessory_get 00 00 00 01", "bidib_send_accessory_get"), ("ll bidib_send_lc_output 00 00 00 00 01 01", "bidib_send_lc_output"),
                     ("ll bidib_send_cs_set_state 00 00 00 03", "bidib_send_cs_set_state"), ("flush", "bidib_flush"), ("readmsg", "bidib_read_message"),
                     ("readerr", "bidib_read_error_message")):
        rec.step(line, nm)
    # receiver: every type code (state-bearing ones aimed at configured equipment) and the model alphabet
    for ty in range(256):
        if ty == 0x8a: continue
        n, t2, d = g.typed_uplink(rng, sess, ty, variant=ty & 1)
        rec.step("feed " + wire.hexs(wire.packet([wire.msg(n, 0, t2, d)])), "rx type 0x%02x" % t2, wait=True)
    for _ in range(150 if thorough else 60):
        n, ty, d = g.rand_uplink(rng, sess)
        rec.step("feed " + wire.hexs(wire.packet([wire.msg(n, 0, ty, d)])), "rx type 0x%02x" % ty, wait=True)

REJECTS = ["dup_board", "dup_pb", "dup_pd", "dup_sd", "dup_sb", "dup_per", "dup_seg", "dup_rev", "dup_train", "dcc_train_vs_point", "bad_hex"]
def rejected_cfg(kind):
    c = copy.deepcopy(track_mc.MC_CFG); tb = c["track"][0]
    if kind == "dup_board": c["boards"].append(dict(c["boards"][0]))
    elif kind == "dup_pb": tb["pb"].append(dict(tb["pb"][0], num=99))
    elif kind == "dup_sb": tb["sb"].append(dict(tb["sb"][0], num=98))
    elif kind == "dup_pd": c["track"][1]["pd"].append(dict(c["track"][1]["pd"][0], al=77))
    elif kind == "dup_sd": c["track"][1]["sd"] = [dict(c["track"][1]["pd"][0], id="sdx", al=78), dict(c["track"][1]["pd"][0], id="sdx", al=79)]
    elif kind == "dup_per": tb["per"].append(dict(tb["per"][0], num=9, p0=1))
    elif kind == "dup_seg": tb["seg"].append(dict(tb["seg"][0], addr=77))
    elif kind == "dup_rev": tb["rev"].append(dict(tb["rev"][0], cv="31"))
    elif kind == "dup_train": c["trains"].append(dict(c["trains"][0], al=99))
    elif kind == "dcc_train_vs_point": c["trains"].append(dict(c["trains"][1], id="tx", al=34, ah=17))
    elif kind == "bad_hex": tb["seg"][0]["length"] = "1cm"; c["_badhex"] = True
    return c

def run(pid, tier):
    ctx = check.Ctx(pid, tier); thorough = tier == "thorough"
    rng = random.Random(ctx.seed * 2654435761 % (1 << 31) + 11)
    try: exe = build.build("asan")
    except build.BuildError as ex:
        ctx.infra_fail("library/driver build failed: %s" % ex); return ctx.finish()
    tmp = tempfile.mkdtemp(prefix="vlk_", dir=check.TMP)
    try: return _run(ctx, thorough, rng, exe, tmp)
    finally: shutil.rmtree(tmp, ignore_errors=True)

def _run(ctx, thorough, rng, exe, tmp):
    recs = []
    r0 = Rec("lkmc", track_mc.MC_CFG, os.path.join(tmp, "lkmc"), paths=dict(track_mc.MC_PATHS)); api_steps(rng, r0, track_mc.MC_CFG, thorough); recs.append(r0.end())
    for i in range(6 if thorough else 2):
        c = boot.gen_cfg(rng); tree, opts = boot.gen_tree(rng, c)
        r = Rec("lk%d" % i, c, os.path.join(tmp, "lk%d" % i), tree=tree, bus_opts=opts); api_steps(rng, r, c, thorough); recs.append(r.end())
    # rejected configurations (each rejection site that takes a lock), silent interface, notices inside the start-up dialogues
    for k in REJECTS:
        c = rejected_cfg(k); d = os.path.join(tmp, "rej_" + k)
        r = Rec("rej_" + k, c, d, paths=dict(track_mc.MC_PATHS))
        if c.get("_badhex"):
            p = os.path.join(d, "bidib_track_config.yml"); open(p, "w").write(open(p).read().replace("address: 0x00", "address: 0xZZ", 1))
        r.names = {k2: "start(rejected: %s)" % k if v == "start" else v for k2, v in r.names.items()}
        recs.append(r.end())
    rs = Rec("silent", track_mc.MC_CFG, os.path.join(tmp, "silent"), paths=dict(track_mc.MC_PATHS), bus_opts=["silent 1"]); recs.append(rs.end())
    newmsg = wire.hexs(wire.packet([wire.msg([], 0, 0x8d, [2, 5, 0x40, 0, 0x0d, 1, 2, 3, 4])]))
    lostmsg = wire.hexs(wire.packet([wire.msg([], 0, 0x8c, [3, 1, 64, 0, 13, 5, 6, 7, 8])]))
    for nm, m in (("nodenew", newmsg), ("nodelost", lostmsg)):
        ri = Rec("inj_" + nm, track_mc.MC_CFG, os.path.join(tmp, "inj_" + nm), paths=dict(track_mc.MC_PATHS), bus_opts=["inject feature " + m])
        ri.names = {k2: "start(%s ahead of a feature reply)" % nm if v == "start" else v for k2, v in ri.names.items()}
        recs.append(ri.end())
    res = drv.run(exe, [r.sess.s for r in recs], timeout=40)
    events = []; distinct = {}
    for r in recs:
        rr = res.get(r.sess.sid)
        if rr is None or rr.status != "ok":
            st = rr.status if rr else "missing"
            what = ("a call did not return within the watchdog time (blocked forever)" if st == "timeout" else "process ended with %s" % st)
            ctx.violation("lock-program session %s: %s; last completed step: %s" % (r.sess.sid, what, _last_step(r, rr)),
                          {"kind": "hang" if st == "timeout" else "crash", "script": r.sess.s.text(), "config": r.sess.cfg, "stderr": rr.stderr[-3000:] if rr else ""})
            continue
        # per thread, the lock events of the whole session in order (a dump may cut a library thread's work in two: the
        # receiver runs asynchronously), cut into top-level blocks = programs at the points where nothing is held
        streams = {}
        for ln, name in sorted(r.names.items()):
            o = rr.out.get(ln)
            if not o: continue
            if o[0].get("dropped"): ctx.note("%s: %d lock events dropped" % (name, o[0]["dropped"]))
            for thr, op, lk, _ in o[0].get("locks", []): streams.setdefault(thr, []).append((op, lk, name))
        for thr, evs in streams.items():
            who = "caller" if thr < 0 else "lib-thread"
            cur = []; held = 0; nm = None
            def emit():
                events.append({"e": "prog", "name": "%s [%s]" % (nm, who), "ops": cur})
                key = json.dumps(cur)
                if key not in distinct: distinct[key] = "%s [%s]" % (nm, who)
                ctx.cov["evaluations"] += 1
            for op, lk, name in evs:
                if not cur: nm = name
                cur.append([op, lk]); held += -1 if op == "u" else 1
                if held <= 0: emit(); cur = []; held = 0
            if cur: emit()           # something is still held at the end of the session: Locks refuses it as unbalanced
    ctx.cov["programs_recorded"] = len(events); ctx.cov["distinct_programs"] = len(distinct)
    for k in distinct: ctx.distinct(k)
    if not events: ctx.infra_fail("no lock program recorded"); return ctx.finish()
    # ---- Trace_Locks: balanced, no self-deadlock, acyclic global order
    acc, consumed, r = check.validate("Trace_Locks.tla", "Trace_Locks.cfg", events, timeout=900)
    m = re.search(r'"ORDER",(.*?)"NOTES",(.*?)>>\s*\n', r.out, re.S)
    if m:
        ctx.cov["nesting_order_found"] = sorted(set(re.findall(r'<<"(\w+)", "(\w+)">>', m.group(1))))
        ctx.cov["notes"] = re.findall(r'"([\w-]+)"', m.group(2))
    tlc.cleanup(r)
    tries = 0
    while not acc and tries < 8:
        if r.error and not r.violation: ctx.infra_fail("Trace_Locks: " + r.error[:800]); break
        e = events[consumed] if consumed < len(events) else (events[consumed - 1] if events else {})
        if r.violation:
            e = events[consumed - 1]
            ctx.violation("lock nesting is not one global order: program '%s' %s closes a cycle (invariant %s)" % (e["name"], json.dumps(e["ops"])[:400], r.violation),
                          {"kind": "locks", "program": e, "tlc": r.out[-3000:]})
            events = events[:consumed - 1] + events[consumed:]
        else:
            ctx.violation("lock program '%s' is refused by Locks (unbalanced / self-deadlock / release of a lock not held): %s" % (e["name"], json.dumps(e["ops"])[:600]),
                          {"kind": "locks", "program": e})
            events = events[:consumed] + events[consumed + 1:]
        acc, consumed, r = check.validate("Trace_Locks.tla", "Trace_Locks.cfg", events, timeout=900); tlc.cleanup(r); tries += 1
    ctx.cov["traces_validated_against_impl"] += len(events)
    # ---- LocksMC: interleavings of K concurrently running *blocks*.  Between two top-level blocks a program holds nothing,
    # so a deadlock can only involve one block of each participant: all distinct blocks, all K-tuples.
    blocks = {}
    for k in distinct:
        cur = []; held = 0
        for op, lk in json.loads(k):
            cur.append([op, lk]); held += -1 if op == "u" else 1
            if held == 0:
                if len(cur) > 2: blocks.setdefault(json.dumps(cur), distinct[k])
                cur = []
    use = [json.loads(b) for b in sorted(blocks, key=lambda b: (-len({o[1] for o in json.loads(b)}) if len(json.loads(b)) <= 40 else 0, len(json.loads(b)), b))]
    ctx.cov["distinct_nested_blocks"] = len(use); ctx.cov["longest_block"] = max(len(b) for b in use) if use else 0
    def data(sel):
        return ("----------------------------- MODULE LocksData -----------------------------\nPrograms == <<\n" + ",\n".join(
                "  << " + ", ".join('[op |-> "%s", l |-> "%s"]' % (o[0], o[1]) for o in p) + " >>" for p in sel) +
                "\n>>\n=============================================================================\n")
    if use:
        for K, lim in ((2, None), (3, None if thorough else 30), (4, 16 if thorough else 8)):
            sel = use if lim is None else use[:lim]
            r = tlc.run("LocksMC.tla", "_m.cfg", workers=16, timeout=2400 if thorough else 500, xmx="16g",
                        extra_files={"_m.cfg": "SPECIFICATION MSpec\nCONSTANT K = %d\nINVARIANT NoDeadlock\nCHECK_DEADLOCK FALSE\n" % K, "LocksData.tla": data(sel)})
            ctx.add_tlc("LocksMC K=%d over %d distinct recorded lock blocks" % (K, len(sel)), r); tlc.cleanup(r)
            if r.violation:
                ctx.violation("deadlock among %d concurrently running calls (LocksMC, %s): %s" % (K, r.violation, r.trace_text[:1500]),
                              {"kind": "deadlock-model", "trace": r.trace_text[:8000], "blocks": sel, "origin": blocks})
            elif r.error: ctx.infra_fail("LocksMC K=%d: %s" % (K, r.error[:600]))
    ctx.sample({"program": events[0]["name"], "ops": events[0]["ops"][:40]})
    for k, v in list(distinct.items())[:4]: ctx.sample({"program": v, "ops": json.loads(k)[:30]})
    ctx.cov["rule"] = ("cases = lock programs (one per call / per message on the receiver thread / per start or stop and thread) recorded from the real library; "
                       "distinct = distinct acquire/release sequences")
    ctx.assumptions += ["lock events are observed at the pthread_* call boundary (link-time wrappers); all 15 library locks are extern globals",
                        "rwlock semantics as glibc's default (reader preferring); recursive read locks are reported as notes",
                        "coverage of paths is what the enumerated calls / messages / configurations execute"]
    return ctx.finish()

def _nests(p):
    held = 0
    for op, _ in p:
        if op == "u": held -= 1
        else:
            held += 1
            if held > 1: return True
    return False

def _last_step(r, rr):
    if rr is None: return "?"
    done = [ln for ln in r.names if ln in rr.out]
    return r.names[max(done)] if done else "(none: the start itself)"
