"""C10 (and the 'readers racing the receiver' clause of C06): the thread-safe API under concurrent use.
The real library runs 2..16 application threads (single-entity getters, queue readers, high-level commands, flush)
next to its receiver (continuous uplink traffic from a feeder thread) under the baton scheduler (context switches at
every lock acquisition / usleep; PCT and random schedules).  Every completed call is an event; the receiver's work is a
silent step of Trace_Lin, and TLC searches for a placement of the silent steps that explains every getter result and
every message returned by the read functions (linearisability at entity granularity, exactly-once delivery).
Lock discipline: the lock programs of the same runs are validated by Trace_Locks (balanced, one global order)."""
import random, os, json, shutil, tempfile, zlib
from vlib import build, drv, check, tlc, wire, cfg as cfgmod, gen_track as g
from checks import track_mc, boot

GK = {"bidib_get_point_state": "point", "bidib_get_signal_state": "signal", "bidib_get_peripheral_state": "per", "bidib_get_segment_state": "seg",
      "bidib_get_reverser_state": "rev", "bidib_get_train_state": "trn", "bidib_get_booster_state": "bst", "bidib_get_track_output_state": "to",
      "bidib_get_train_position": "pos", "bidib_get_board_connected": "conn"}

def conc_session(rng, sid, cfgdir, cfg, paths, K, per, policy, debug=False, fill=0, writers=False):
    """returns (script, meta): meta = list of (line index, thread, template)"""
    if debug:
        s = drv.Script(sid); meta = []
        s.add("debug 1"); i = len(s.lines); s.add("start ~ 0"); meta.append((i, 0, {"e": "start", "debug": 1, "nost": 1}))
        sess = None
    else:
        sess = g.Session(sid, cfg, cfgdir, paths=paths, full=False); s = sess.s; meta = []
    ent = g.entities(cfg) if cfg else None
    ids = {}
    if cfg:
        ids = {"bidib_get_point_state": [x["id"] for _, x in ent["pb"] + ent["pd"]], "bidib_get_signal_state": [x["id"] for _, x in ent["sb"] + ent["sd"]],
               "bidib_get_peripheral_state": [x["id"] for _, x in ent["per"]], "bidib_get_segment_state": [x["id"] for _, x in ent["seg"]],
               "bidib_get_reverser_state": [x["id"] for _, x in ent["rev"]], "bidib_get_train_state": [t["id"] for t in cfg["trains"]],
               "bidib_get_train_position": [t["id"] for t in cfg["trains"]], "bidib_get_booster_state": [b["id"] for b in cfg["boards"]],
               "bidib_get_track_output_state": [b["id"] for b in cfg["boards"]], "bidib_get_board_connected": [b["id"] for b in cfg["boards"]]}
    # "hot" sessions: feeder and getters concentrate on one segment / one train, so that reads fall into the windows in
    # which the receiver updates exactly that entity
    hot = None
    if cfg and ent["seg"] and cfg["trains"] and rng.random() < 0.6:
        hs = rng.choice(ent["seg"]); ht = rng.choice(cfg["trains"])
        sess._stick = {"g": rng.choice(["seg", "seg", "trn"]), "ttl": 10 ** 9, "seg": hs, "trn": ht, "acc": None, "dacc": None, "per": None}
        hot = {"bidib_get_segment_state": hs[1]["id"], "bidib_get_train_state": ht["id"], "bidib_get_train_position": ht["id"]}
    # pre-fill the message queue close to its bound (C06: fill levels around 128)
    for k in range(fill):
        n = [1]; ty = 0x82; d = [k & 255, k >> 8]
        i = len(s.lines); s.add("feed " + wire.hexs(wire.packet([wire.msg(n, 0, ty, d)]))); meta.append((i, 0, {"e": "fed", "n": n, "ty": ty, "d": d, "sq": 0, "sy": 1}))
    if fill: s.add("waitidle")
    s.add("threads " + policy)
    s.add("thread 1")                                    # the feeder
    # queue sessions: often only one to three deliveries race with the readers - a loss then cannot be explained by a later overflow
    nfeed = (rng.choice([1, 1, 2, 3, per * (K - 1)]) if debug else per * 2)
    for k in range(nfeed):
        if debug:
            n = rng.choice([[1], [2], []]); ty = rng.choice([0x82, 0x86, 0x95, 0xa0, 0xb0]); d = [k & 255, rng.randrange(256)]
        else:
            n, ty, d = g.rand_uplink(rng, sess)
            if ty == 0x8e: continue
        i = len(s.lines); s.add("feed " + wire.hexs(wire.packet([wire.msg(n, 0, ty, d)]))); meta.append((i, 1, {"e": "fed", "n": list(n), "ty": ty, "d": list(d), "sq": 0, "sy": 0}))
    for t in range(2, K + 1):
        s.add("thread %d" % t)
        for _ in range(per):
            x = rng.random()
            if writers: x = 0.25 + 0.1 * x if x < 0.2 else (0.8 + 0.2 * x)        # writer sessions: getters 20%, the rest sends / flushes
            if debug or x < 0.25:
                # debug (queue) sessions: mostly reads of the (empty) error queue as pacing, so that the message queue stays
                # around its bound while the receiver delivers (a delivery costs the receiver about four scheduling decisions)
                k = rng.choice(["msg", "err", "err", "err", "err"]) if debug else rng.choice(["msg", "msg", "err"]); i = len(s.lines); s.add("readmsg" if k == "msg" else "readerr"); meta.append((i, t, {"e": "rd", "k": k}))
            elif x < 0.65:
                fn = rng.choice(list(GK)); pool = ids.get(fn) or []
                a = rng.choice(pool) if pool and rng.random() < 0.9 else "nosuch"
                if hot and rng.random() < 0.75: fn = rng.choice(list(hot)); a = hot[fn]
                i = len(s.lines); s.add("get %s %s" % (fn, a)); meta.append((i, t, {"e": "get", "k": GK[fn], "id": a}))
            elif x < 0.80:
                fn, sa, iv = g.rand_command(rng, sess)
                toks = []
                if fn in ("bidib_set_train_speed", "bidib_set_calibrated_train_speed"): toks = [g._t(sa[0]), str(iv), g._t(sa[1])]
                elif fn == "bidib_set_train_peripheral": toks = [g._t(sa[0]), g._t(sa[1]), str(iv), g._t(sa[2])]
                elif fn in ("bidib_set_booster_power_state", "bidib_set_track_output_state", "bidib_ping", "bidib_identify"): toks = [g._t(sa[0]), str(iv)]
                elif fn == "bidib_set_track_output_state_all": toks = [str(iv)]
                else: toks = [g._t(x2) for x2 in sa]
                i = len(s.lines); s.add("hl %s %s" % (fn, " ".join(toks))); meta.append((i, t, {"e": "hl", "fn": fn, "s": ["" if x2 is None else x2 for x2 in sa], "i": iv}))
            elif x < 0.92:
                # a low-level send that needs no answer (no effect on the tracked state or the queues: not an event of
                # Trace_Lin) and a flush: several threads write concurrently, the bytes are checked at the quiesce event
                from vlib import gen_downlink as gd
                fn = rng.choice(["bidib_send_bm_mirror_occ", "bidib_send_bm_mirror_free", "bidib_send_lc_port_query_all"])
                args = [[rng.randrange(256) for _ in range(6)]] if fn.endswith("query_all") else [rng.randrange(256)]
                line, _ = gd.ll_line(fn, g.na3(rng.choice([[], [1], [2], [1, 1]])), args)
                s.add(line); s.add("flush")
            else:
                s.add("flush")
    s.add("endthreads"); s.add("waitidle")
    i = len(s.lines); s.add("drain"); j = len(s.lines); s.add("getall" if not debug else "note nostate")
    meta.append(((i, j), 0, {"e": "quiesce"}))
    s.add("locks off"); s.add("stop")
    return s, meta, sess

def events_of(s, meta, sess, rr, debug):
    evs = []
    if not debug:
        ev0, probs = g.to_events(sess, rr)
        if probs: return None, probs
        st = ev0[0]; evs.append((-1, {"e": "start", "debug": 0, "cfg": st["cfg"], "tree": st["tree"], "nost": 0, "st": st["st"]}))
    order = 0
    for idx, t, tmpl in meta:
        e = dict(tmpl)
        if e["e"] == "start":
            e.update({"cfg": {"boards": [], "track": [], "trains": []}, "tree": [], "st": 0}); evs.append((-1, e)); continue
        if e["e"] == "quiesce":
            dq = rr.out.get(idx[0]); gq = rr.out.get(idx[1])
            if not dq: return None, ["no drain output"]
            e["qm"] = [wire.unhex(x) for x in dq[0].get("msg", [])]; e["qe"] = [wire.unhex(x) for x in dq[0].get("err", [])]; e["qi"] = [wire.unhex(x) for x in dq[0].get("int", [])]
            if not debug and gq and gq[0].get("st"): e["st"] = g.keyed(gq[0]["st"]); e["nost"] = 0
            else: e["st"] = 0; e["nost"] = 1
            # bytes written from the start of the concurrent section up to here, in write-call order
            w = []; tl = [k for k, ln in enumerate(s.lines) if ln.startswith("threads ")]
            te = [k for k, ln in enumerate(s.lines) if ln == "endthreads"]
            free = False
            if tl and te:
                for o2 in rr.out.get(tl[0], []):
                    if o2.get("op") == "threads":
                        if o2.get("free"): free = True          # free-running threads (TSan stage): no global write order
                        for x in o2.get("ev", []):
                            if x[2] == "W": w += wire.unhex(x[3])
                for k in range(te[0], idx[1] + 1):
                    for o2 in rr.out.get(k, []):
                        for ch in o2.get("wire", []): w += wire.unhex(ch)
            if free: w = []
            e["w"] = w
            evs.append((10 ** 15, e)); continue
        o = rr.out.get(idx)
        if not o: return None, ["missing output at line %d" % idx]
        o = o[0]; gs = o.get("gs", 0)
        if e["e"] == "fed":
            # the bytes are available to the receiver when the feed command starts: order it before anything stamped later
            gs = gs - 0.5
        elif e["e"] == "rd": e["m"] = wire.unhex(o["m"]) if o.get("m") else []
        elif e["e"] == "get":
            res = o.get("res")
            if res is None: return None, ["getter without result"]
            e["res"] = res
        elif e["e"] == "hl": e["ret"] = o.get("ret")
        evs.append((gs, e))
    evs.sort(key=lambda x: x[0])
    return [e for _, e in evs], []

def sessions(ctx, pid, thorough, rng, exe, tmp):
    """build, run and validate the concurrent sessions; used by C10 and (queue part) by C06"""
    runs = []
    n_state = 0 if pid == "C06" else (90 if thorough else 30)
    n_queue = (150 if thorough else 40) if pid == "C06" else (30 if thorough else 8)
    for i in range(n_state):
        if i % 3 == 0: cfg = track_mc.MC_CFG; paths = dict(track_mc.MC_PATHS)
        else:
            cfg = cfgmod.gen(rng, nboards=rng.choice([1, 2, 3]), ntrains=rng.choice([1, 2, 3]), small=True); paths = None
        K = rng.choice([2, 3, 4, 8, 16]) if thorough else rng.choice([2, 3, 4, 6])
        pol = rng.choice(["pct %d 3 %d" % (rng.randrange(10 ** 6), 60 * K), "rnd %d" % rng.randrange(10 ** 6), "pct %d 8 %d" % (rng.randrange(10 ** 6), 80 * K)])
        s, meta, sess = conc_session(rng, "st%d" % i, os.path.join(tmp, "st%d" % i), cfg, paths, K, rng.choice([6, 10]), pol)
        runs.append((s, meta, sess, False))
    # writer sessions: most calls send and flush, so that flushes / write callbacks of several threads overlap
    for i in range(0 if pid == "C06" else (40 if thorough else 12)):
        K = rng.choice([2, 3, 4, 8]); pol = rng.choice(["pct %d 3 %d" % (rng.randrange(10 ** 6), 40 * K), "rnd %d" % rng.randrange(10 ** 6)])
        s, meta, sess = conc_session(rng, "wr%d" % i, os.path.join(tmp, "wr%d" % i), track_mc.MC_CFG, dict(track_mc.MC_PATHS), K, rng.choice([6, 12]), pol, writers=True)
        runs.append((s, meta, sess, False))
    for i in range(n_queue):
        K = rng.choice([2, 3, 4, 8]); pol = rng.choice(["pct %d 4 %d" % (rng.randrange(10 ** 6), 40 * K), "rnd %d" % rng.randrange(10 ** 6), "rnd %d" % rng.randrange(10 ** 6)])
        s, meta, sess = conc_session(rng, "q%d" % i, None, None, None, K, rng.choice([12, 25, 40]), pol, debug=True, fill=rng.choice([0, 120, 126, 127, 128, 128, 128, 128]))
        runs.append((s, meta, sess, True))
    # read-modify-write commands: several threads switch different functions of ONE function group of one train at the same
    # time (each command carries the whole group: a command that reads the group outside the region in which it stores it
    # loses the other thread's update) - and set the speed of that train; random schedules, the state at the end and every
    # getter result in between must be explained by SOME order of the commands
    if pid != "C06":
        groups = [("h24", "h31"), ("h16", "h23"), ("h8", "h11"), ("h12", "h15")]
        for i in range(80 if thorough else 24):
            sess = g.Session("rmw%d" % i, track_mc.MC_CFG, os.path.join(tmp, "rmw%d" % i), paths=dict(track_mc.MC_PATHS), full=False); s = sess.s; meta = []
            s.add("locks on")
            K = rng.choice([2, 2, 3]); grp = rng.choice(groups)
            s.add("threads " + rng.choice(["rnd %d" % rng.randrange(10 ** 6), "pct %d 3 60" % rng.randrange(10 ** 6), "pct %d 6 80" % rng.randrange(10 ** 6)]))
            s.add("thread 1"); s.add("note feeder")
            # every variable (a function, the speed) is written by one thread only, in program order: the state at the end
            # does not depend on the interleaving, so any difference is a lost or torn update (no getter inside: a result
            # taken while another call is between its effect and its return has no position in the event order)
            for t in range(2, K + 2):
                s.add("thread %d" % t)
                for rep in range(rng.choice([1, 2, 3])):
                    if t - 2 >= 2:
                        sp = rng.choice([5, -7, 20, 0]); i2 = len(s.lines); s.add("hl bidib_set_train_speed t2 %d bA" % sp)
                        meta.append((i2, t, {"e": "hl", "fn": "bidib_set_train_speed", "s": ["t2", "bA"], "i": sp}))
                    else:
                        fnid = grp[t - 2]; v = 1 if rep == 0 else rng.choice([0, 1]); i2 = len(s.lines); s.add("hl bidib_set_train_peripheral t2 %s %d bA" % (fnid, v))
                        meta.append((i2, t, {"e": "hl", "fn": "bidib_set_train_peripheral", "s": ["t2", fnid, "bA"], "i": v}))
            s.add("endthreads"); s.add("waitidle")
            i2 = len(s.lines); s.add("drain"); j2 = len(s.lines); s.add("getall")
            meta.append(((i2, j2), 0, {"e": "quiesce"}))
            s.add("locks off"); s.add("stop")
            runs.append((s, meta, sess, False))
    # exhaustive part: one delivery into a full queue against one or two readers, every interleaving of the receiver's
    # decision points with the read calls imposed explicitly (labels: 1 feeder, 2.. readers, 100 receiver)
    import itertools
    def explicit(name, readers, recv_steps=6):
        items = [100] * recv_steps + [t for t in readers]
        for n, il in enumerate(sorted(set(itertools.permutations(items)))):
            s = drv.Script("%s_%d" % (name, n)); meta = []
            s.add("debug 1"); i = len(s.lines); s.add("start ~ 0"); meta.append((i, 0, {"e": "start", "debug": 1, "nost": 1}))
            for k in range(128):
                i = len(s.lines); s.add("feed " + wire.hexs(wire.packet([wire.msg([1], 0, 0x82, [k, 0])]))); meta.append((i, 0, {"e": "fed", "n": [1], "ty": 0x82, "d": [k, 0], "sq": 0, "sy": 1}))
            s.add("threads sched 1," + ",".join(map(str, il)))
            s.add("thread 1"); i = len(s.lines); s.add("feed " + wire.hexs(wire.packet([wire.msg([1], 0, 0x82, [200, 0])]))); meta.append((i, 1, {"e": "fed", "n": [1], "ty": 0x82, "d": [200, 0], "sq": 0, "sy": 0}))
            for t in sorted(set(readers)):
                s.add("thread %d" % t)
                for _ in range(readers.count(t)):
                    i = len(s.lines); s.add("readmsg"); meta.append((i, t, {"e": "rd", "k": "msg"}))
            s.add("endthreads"); s.add("waitidle")
            i = len(s.lines); s.add("drain"); j = len(s.lines); s.add("note nostate"); meta.append(((i, j), 0, {"e": "quiesce"}))
            s.add("stop"); runs.append((s, meta, None, True))
    if pid == "C06" or thorough:
        explicit("x1", [2, 2]); explicit("x2", [2, 3])
    ctx.cov["explicit_interleavings"] = sum(1 for x in runs if x[0].sid.startswith("x"))
    res = drv.run(exe, [x[0] for x in runs], timeout=90)
    good = []
    for s, meta, sess, debug in runs:
        rr = res.get(s.sid)
        if rr is None or rr.status != "ok":
            ctx.violation("concurrent script %s: process ended with %s (code %s)" % (s.sid, rr.status if rr else "missing", rr.code if rr else "?"),
                          {"kind": "crash", "script": s.text(), "stderr": rr.stderr[-4000:] if rr else ""}); continue
        thr = [o[0] for o in rr.out.values() if o and o[0].get("op") == "threads"]
        if thr and thr[0].get("deadlock"):
            ctx.violation("deadlock in concurrent script %s: blocked %s" % (s.sid, json.dumps(thr[0].get("blocked"))),
                          {"kind": "deadlock", "script": s.text(), "decisions": thr[0].get("dec")}); continue
        ev, probs = events_of(s, meta, sess, rr, debug)
        if ev is None: ctx.note("%s skipped: %s" % (s.sid, probs)); ctx.cov["skipped_sessions"] = ctx.cov.get("skipped_sessions", 0) + 1; continue
        if thr: ctx.cov["evaluations"] += thr[0].get("decisions", 0); ctx.distinct(tuple(thr[0].get("dec", [])[:80]))
        good.append((s, ev, thr[0].get("dec") if thr else None))
    # all executions in one TLC run (every session starts with a start event that resets the state); on a rejection the
    # session containing the first unexplained event is reported and the rest is validated again
    base, _, _ = check.quirk_cfg("Trace_Lin.cfg", pid)
    todo = good
    while todo:
        evs = []; bounds = []
        for s, ev, dec in todo: bounds.append(len(evs)); evs += ev
        acc, maxl, r = check.validate_lin("Trace_Lin.tla", "_lin.cfg", evs, timeout=1800, extra_files={"_lin.cfg": base}); tlc.cleanup(r)
        if acc: ctx.cov["traces_validated_against_impl"] += len(todo); break
        if r.error: ctx.infra_fail("Trace_Lin: %s" % r.error[:600]); break
        k = max(i for i, b in enumerate(bounds) if b <= maxl)
        s, ev, dec = todo[k]; off = maxl - bounds[k]
        e = ev[off] if off < len(ev) else {}
        ctx.cov["traces_validated_against_impl"] += k
        ctx.violation("concurrent execution %s has no linearisation: no placement of the receiver's steps explains event %d %s" % (
            s.sid, off, json.dumps({x: e[x] for x in e if x not in ("st", "cfg")})[:500]),
            {"kind": "lin", "module": "Trace_Lin.tla", "cfg": "Trace_Lin.cfg", "script": s.text(), "decisions": dec, "events": ev, "refused_at": off})
        todo = todo[k + 1:]
    return runs

def run(pid, tier):
    ctx = check.Ctx(pid, tier); thorough = tier == "thorough"
    rng = random.Random(ctx.seed * 7368787 + zlib.crc32(pid.encode()) % 1000)
    try: exe = build.build("asan")
    except build.BuildError as ex:
        ctx.infra_fail("library/driver build failed: %s" % ex); return ctx.finish()
    tmp = tempfile.mkdtemp(prefix="vcc_", dir=check.TMP)
    try: return _run(ctx, pid, thorough, rng, exe, tmp)
    finally: shutil.rmtree(tmp, ignore_errors=True)

def _run(ctx, pid, thorough, rng, exe, tmp):
    r = tlc.run("DispatchMC.tla", "DispatchMC.cfg", workers=8, timeout=600)
    ctx.add_tlc("DispatchMC (queue automaton, two readers)", r); tlc.cleanup(r)
    if r.violation or r.error: ctx.infra_fail("DispatchMC: %s %s" % (r.violation, (r.error or "")[:400]))
    runs = sessions(ctx, pid, thorough, rng, exe, tmp)
    # ---- raw data races (memory accesses are not trace events): the same kind of session, free-running threads, on a
    # ThreadSanitizer build (auxiliary detector, DESIGN.md section 9).  Suppressed: the termination / mode flags.
    if pid == "C10":
        import re
        FLAGS = {"bidib_running", "bidib_discard_rx", "bidib_lowlevel_debug_mode", "bidib_seq_num_enabled"}
        try:
            exe_t = build.build("tsan")
            ts = []
            for i in range(40 if thorough else 6):
                cfg = track_mc.MC_CFG if i % 2 == 0 else cfgmod.gen(rng, nboards=rng.choice([1, 2, 3]), ntrains=rng.choice([1, 2, 3]), small=True)
                s, meta, sess = conc_session(rng, "ts%d" % i, os.path.join(tmp, "ts%d" % i), cfg, dict(track_mc.MC_PATHS) if i % 2 == 0 else None,
                                             rng.choice([4, 8, 16]), rng.choice([10, 25]), "free")
                ts.append(s)
            tres = drv.run(exe_t, ts, timeout=120, env={"TSAN_OPTIONS": "halt_on_error=0:exitcode=0:report_signal_unsafe=0"})
            nrep = 0; ignored = 0; seen = set()
            for s in ts:
                rr = tres.get(s.sid)
                if rr is None or rr.status not in ("ok", "exit"): ctx.infra_fail("tsan session %s ended with %s" % (s.sid, rr.status if rr else "missing")); continue
                for b in rr.stderr.split("=================="):
                    if "WARNING: ThreadSanitizer" not in b: continue
                    m = re.search(r"Location is global '(\w+)'", b)
                    lib = re.findall(r"#\d+ (\S+) /repo/src/(\S+?):(\d+)", b)
                    if m and m.group(1) in FLAGS: ignored += 1; continue
                    if not lib: ignored += 1; continue                       # harness / glib frames only
                    key = (m.group(1) if m else "?", lib[0][1], lib[0][2])
                    if key in seen: continue
                    seen.add(key); nrep += 1
                    ctx.violation("ThreadSanitizer: %s in library code (%s %s:%s)" % (b.strip().splitlines()[0][:80], lib[0][0], lib[0][1], lib[0][2]),
                                  {"kind": "tsan", "script": s.text(), "report": b[:6000]})
            ctx.cov["tsan_sessions"] = len(ts); ctx.cov["tsan_reports"] = nrep; ctx.cov["tsan_suppressed_flag_or_foreign_reports"] = ignored
        except build.BuildError as ex:
            ctx.infra_fail("tsan build failed: %s" % ex)
    ctx.sample({"script": runs[0][0].sid, "lines": runs[0][0].lines[-40:-20]})
    ctx.cov["rule"] = "cases = scheduling decisions taken on the real threads; distinct = distinct decision sequences (first 80 decisions) of the concurrent sections"
    ctx.assumptions += ["context switches only at synchronisation points (lock acquisition, usleep, thread start / end): raw data races inside a region are outside what a trace can show (thorough tier adds a free-running ThreadSanitizer build)",
                        "entity granularity: single-entity getters and bidib_get_train_position; the whole-track snapshot is compared at quiescence only",
                        "one feeder thread (the receiver processes messages in feed order)"]
    return ctx.finish()
