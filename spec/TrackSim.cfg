SPECIFICATION MCSpec
CONSTANTS
  TQ = {}
  MaxUp = 12
  MaxCmd = 8
  SimDepth = 16
CONSTRAINT Emit
INVARIANTS TypeOk TrainsAgree FreeClears UnknownNoEffect CmdLaws
CHECK_DEADLOCK FALSE
