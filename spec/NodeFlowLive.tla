---------------------------- MODULE NodeFlowLive ----------------------------
(***************************************************************************)
(* Liveness of the per-node flow control (the "never stranded" clause of   *)
(* C03 and the "held traffic resumes" clause of C04 as temporal            *)
(* properties): a message that is held back for a node is eventually       *)
(* handed to the transmit buffer, provided time passes, the node keeps     *)
(* saying something and every stall is eventually cleared (weak fairness). *)
(* NodeFlowMC states the same clauses as invariants over bounded           *)
(* histories ("no held message while the budget is free"); here the        *)
(* behaviours are infinite, so the state has to be finite WITHOUT          *)
(* counters:                                                               *)
(*   - time is kept relative: `now` stays at ExpirySecs, a tick ages every *)
(*     outstanding request (its stamp moves towards 0 = expired);          *)
(*   - sequence numbers and the transmit buffer are forgotten after each   *)
(*     step (they do not influence admission);                             *)
(*   - a send is refused while MaxHeld messages are already held.          *)
(* The transition functions are NodeFlow's own (SendNsG, UplinkNs,         *)
(* StallNs), so the quirk switches apply: with Q = {"PinnedExpiry"} (the   *)
(* pinned code) TLC must find the stranded message as a lasso.             *)
(***************************************************************************)
EXTENDS NodeFlow, TLC

CONSTANTS LAddrs, LTypes, LAnswers, MaxHeld

VARIABLE rel            \* [addr -> number of previously held messages handed over in the last step]
lvars == <<nodes, now, seqOn, ghost, rel>>

G0 == [sub |-> << >>, wired |-> << >>, last |-> << >>, bad |-> {}, touched |-> {}, stouched |-> {}]
Forget(ns) == [a \in DOMAIN ns |-> [ns[a] EXCEPT !.pend = <<>>, !.sseq = 1]]
Held(ns, a) == Len(ns[a].defer)

LInit == /\ nodes = [a \in LAddrs |-> NewNode]
         /\ now = ExpirySecs /\ seqOn = TRUE /\ ghost = G0
         /\ rel = [a \in LAddrs |-> 0]

(* handed over among the previously held ones: everything that left the queue except a message that was added and
   passed straight through in the same step *)
RelOf(old, new, added) == [a \in LAddrs |->
    LET gone == Held(old, a) + (IF a \in added THEN 1 ELSE 0) - Held(new, a) IN
    IF gone > Held(old, a) THEN Held(old, a) ELSE gone]

Step(ns2, added) == /\ nodes' = Forget(ns2)
                    /\ rel' = RelOf(nodes, ns2, added)
                    /\ UNCHANGED <<now, seqOn, ghost>>

LSend(n, ty) == Held(nodes, n) < MaxHeld /\ Step(SendNsG(nodes, G0, n, ty, <<>>), {n})
LUp(n, a) == Step(UplinkNs(nodes, n, a), {})
(* a node announces the end of a stall only while it is stalled (an unsolicited "stall over" would retry the held
   messages and hide a stranded one) *)
LStall(n, v) == (v = 0 => nodes[n].stall) /\ Step(StallNs(nodes, n, v), {})
LTick == /\ nodes' = [a \in DOMAIN nodes |-> [nodes[a] EXCEPT !.resp = [i \in DOMAIN @ |-> [@[i] EXCEPT !.t = IF @ = 0 THEN 0 ELSE @ - 1]]]]
         /\ rel' = [a \in LAddrs |-> 0]
         /\ UNCHANGED <<now, seqOn, ghost>>

SaysSomething(n) == \E a \in LAnswers : LUp(n, a)
LNext == \/ \E n \in LAddrs, ty \in LTypes : LSend(n, ty)
         \/ \E n \in LAddrs : SaysSomething(n)
         \/ \E n \in LAddrs, v \in {0, 1} : LStall(n, v)
         \/ LTick

(* time passes; every node keeps saying something; every node keeps announcing the end of its stall *)
Fair == /\ WF_lvars(LTick)
        /\ \A n \in LAddrs : WF_lvars(SaysSomething(n)) /\ WF_lvars(LStall(n, 0))
LSpec == LInit /\ [][LNext]_lvars /\ Fair

LTypeOk == /\ \A a \in LAddrs : Held(nodes, a) <= MaxHeld /\ Used(nodes[a]) <= ResponseLimit
           /\ \A a \in LAddrs : \A i \in DOMAIN nodes[a].resp : nodes[a].resp[i].t \in 0..ExpirySecs

(* a held message is eventually handed over - unless the node (or an ancestor) is stalled again first: holding is
   what a stall is for, and an environment that stalls the two levels alternately keeps every fairness promise *)
HeldEventuallySent == \A n \in LAddrs : (nodes[n].defer # <<>> /\ ~TrulyBlocked(nodes, n)) ~> (rel[n] > 0 \/ TrulyBlocked(nodes, n))

L_Addrs == {<<>>, <<1>>}
=============================================================================
