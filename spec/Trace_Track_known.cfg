SPECIFICATION TSpec
CONSTANTS Q = {}
  TQ = {"MirrorPos3"}
INVARIANTS Budget DeferFIFOOnce StallSilence SeqConsecutive TrainsAgree
POSTCONDITION TraceAccepted
CHECK_DEADLOCK FALSE
