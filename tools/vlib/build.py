"""Build the library objects from /repo's *working tree* and link the driver.

Objects are cached by content hash of (source, every header under /repo/include and /repo/src, flags),
so a changed source is always recompiled and an unchanged one never is.
"""
import hashlib, os, subprocess, sys, glob, shutil
from concurrent.futures import ThreadPoolExecutor

VERIF = os.path.abspath(os.path.join(os.path.dirname(__file__), "..", ".."))
REPO = os.environ.get("VERIF_REPO", "/repo")
BUILD = os.path.join(VERIF, "build")

def sh(cmd, **kw):
    return subprocess.run(cmd, shell=True, capture_output=True, text=True, **kw)

_pkg = None
def pkg():
    global _pkg
    if _pkg is None:
        c = sh("pkg-config --cflags glib-2.0").stdout.strip()
        l = sh("pkg-config --libs glib-2.0").stdout.strip()
        _pkg = (c, l)
    return _pkg

VARIANTS = {
    # name: (compiler, cflags for library objects, cflags for harness, ldflags)
    "asan": ("clang", "-g -O1 -fno-omit-frame-pointer -fsanitize=address,undefined -fno-sanitize-recover=undefined",
             "-g -O1 -fno-omit-frame-pointer -fsanitize=address,undefined", "-fsanitize=address,undefined"),
    "plain": ("gcc", "-g -O0", "-g -O0", ""),
    "tsan": ("clang", "-g -O1 -fno-omit-frame-pointer -fsanitize=thread", "-g -O1 -fsanitize=thread", "-fsanitize=thread"),
    "fast": ("gcc", "-g -O1", "-g -O1", ""),
}

WRAPS = ["pthread_mutex_lock", "pthread_mutex_unlock", "pthread_mutex_init",
         "pthread_rwlock_rdlock", "pthread_rwlock_wrlock", "pthread_rwlock_unlock", "pthread_rwlock_init",
         "pthread_create", "pthread_join"]

def _hdr_hash(repo):
    h = hashlib.sha256()
    for p in sorted(glob.glob(repo + "/include/**/*.h", recursive=True) + glob.glob(repo + "/src/**/*.h", recursive=True)):
        h.update(p.encode()); h.update(open(p, "rb").read())
    return h.hexdigest()

class BuildError(Exception):
    pass

def build(variant="asan", repo=None, extra_lib_cflags="", tag=""):
    """returns path of the vdrv executable for this variant; raises BuildError"""
    repo = repo or REPO
    cc, libcf, hcf, ldf = VARIANTS[variant]
    libcf = libcf + " " + extra_lib_cflags
    cfl, libs = pkg()
    out = os.path.join(BUILD, variant + tag)
    os.makedirs(out, exist_ok=True)
    hh = _hdr_hash(repo)
    srcs = sorted(s for s in glob.glob(repo + "/src/*/*.c") if not s.endswith("bidib_transmission_serial_port.c") or True)
    jobs = []
    objs = []
    for s in srcs:
        h = hashlib.sha256((hh + libcf + cc).encode() + open(s, "rb").read()).hexdigest()[:20]
        o = os.path.join(out, os.path.basename(s)[:-2] + "." + h + ".o")
        objs.append(o)
        if not os.path.exists(o):
            # content-addressed objects, written under a temporary name and renamed: builds of different trees (seed
            # evaluation on scratch copies, VERIF_REPO) may run at the same time without handing each other's code around
            jobs.append("%s %s %s -w -c %s -o %s.tmp%d && mv %s.tmp%d %s" % (cc, libcf, cfl, s, o, os.getpid(), o, os.getpid(), o))
    # harness
    hsrc = sorted(glob.glob(VERIF + "/harness/*.c"))
    gen = os.path.join(out, "ll_gen.c")
    sys.path.insert(0, os.path.join(VERIF, "tools"))
    import llsigs
    g = llsigs.gen_c()
    if not os.path.exists(gen) or open(gen).read() != g:
        open(gen, "w").write(g)
    hhash = hashlib.sha256()
    for p in hsrc + [gen] + glob.glob(VERIF + "/harness/*.h") + glob.glob(VERIF + "/harness/*.inc"):
        hhash.update(open(p, "rb").read())
    hobjs = []
    for s in hsrc + [gen]:
        h = hashlib.sha256((hh + hcf + cc + hhash.hexdigest()).encode()).hexdigest()[:20]
        o = os.path.join(out, "h_" + os.path.basename(s)[:-2] + "." + h + ".o")
        hobjs.append(o)
        if not os.path.exists(o):
            jobs.append("%s %s %s -Wall -Wno-unused-function -I%s/include -I%s/harness -c %s -o %s.tmp%d && mv %s.tmp%d %s" % (cc, hcf, cfl, repo, VERIF, s, o, os.getpid(), o, os.getpid(), o))
    def run(j):
        r = sh(j)
        return (j, r.returncode, r.stderr)
    with ThreadPoolExecutor(16) as ex:
        for j, rc, err in ex.map(run, jobs):
            if rc != 0:
                raise BuildError("compile failed: %s\n%s" % (j, err[-3000:]))
    # the executable is named after exactly the objects it is linked from
    exe = os.path.join(out, "vdrv_" + hashlib.sha256((" ".join(hobjs + objs) + ldf + cc).encode()).hexdigest()[:16])
    if not os.path.exists(exe):
        wraps = " ".join("-Wl,--wrap=" + w for w in WRAPS)
        cmd = "%s %s -rdynamic %s %s %s -o %s.tmp%d %s -lyaml -lpthread -ldl && mv %s.tmp%d %s" % (
            cc, ldf, wraps, " ".join(hobjs), " ".join(objs), exe, os.getpid(), libs, exe, os.getpid(), exe)
        r = sh(cmd)
        if r.returncode != 0:
            raise BuildError("link failed: %s\n%s" % (cmd, r.stderr[-3000:]))
    _prune(out, keep=set(objs + hobjs + [exe]))
    return exe

def _prune(out, keep, max_age_s=6 * 3600):
    """objects / executables of trees that are no longer built: files not used by any build for max_age_s are dropped.
    Every build refreshes the time stamp of what it uses, so a check that is running elsewhere (another tree, a long
    thorough tier) never loses its executable (a count-based limit did exactly that once)."""
    import time
    now = time.time()
    for f in keep:
        try: os.utime(f, None)
        except OSError: pass
    try:
        for f in glob.glob(os.path.join(out, "*.o")) + glob.glob(os.path.join(out, "vdrv_*")):
            if f in keep: continue
            try:
                if now - os.path.getmtime(f) > max_age_s: os.unlink(f)
            except OSError: pass
    except OSError: pass

if __name__ == "__main__":
    v = sys.argv[1] if len(sys.argv) > 1 else "asan"
    import time
    t = time.time()
    print(build(v), "%.1fs" % (time.time() - t))
