#!/usr/bin/env python3
"""Applies every stored seeded change (seeded/<id>/patch.diff) to /repo, runs the quick tier of the listed checks (default:
the owning property's check), records the number of VIOLATION lines in seeded/<id>/meta.json and undoes the change.
usage: tools/seed_matrix.py [--all-checks] [seed-dir-name ...]"""
import sys, os, json, subprocess, re
V = os.path.dirname(os.path.dirname(os.path.abspath(__file__)))
def sh(cmd, **kw): return subprocess.run(cmd, shell=True, capture_output=True, text=True, **kw)
def main():
    args = [a for a in sys.argv[1:] if not a.startswith("--")]; allc = "--all-checks" in sys.argv; scratch = "--scratch" in sys.argv
    man = json.load(open(os.path.join(V, "MANIFEST.json")))
    claimed = sorted({c["property_id"] for c in man["checks"]}) if allc else None
    if sh("git -C /repo status --porcelain --untracked-files=no").stdout.strip(): sys.exit("/repo has uncommitted changes")
    for nm in sorted(os.listdir(os.path.join(V, "seeded"))):
        if args and nm not in args: continue
        d = os.path.join(V, "seeded", nm); mp = os.path.join(d, "meta.json")
        if not os.path.exists(mp): continue
        meta = json.load(open(mp)); pids = claimed or [meta["property"]]
        if scratch:
            # a scratch copy of the tracked files (the default applies the change to /repo itself and undoes it afterwards)
            repo = "/tmp/seedrepo_%s" % nm; out = "/tmp/seedout_%s" % nm
            sh("rm -rf %s %s; mkdir -p %s %s && git -C /repo archive HEAD | tar -x -C %s" % (repo, out, repo, out, repo))
            r = sh("cd %s && git init -q . && git apply %s/patch.diff" % (repo, d)); env = dict(os.environ, VERIF_REPO=repo, VERIF_OUT=out)
        else:
            repo = "/repo"; r = sh("git -C /repo apply %s/patch.diff" % d); env = dict(os.environ); out = V
        if r.returncode: print(nm, "PATCH DOES NOT APPLY", r.stderr[:200]); continue
        try:
            res = {}
            for pid in pids:
                o = sh("timeout 3000 %s/tools/vcheck %s --tier quick" % (V, pid), env=env)
                res[pid] = len(re.findall(r"^VIOLATION", o.stdout, re.M))
                if o.returncode not in (0, 1): res[pid] = "infrastructure failure (exit %d): %s" % (o.returncode, (re.findall(r"^INFRA.*", o.stdout, re.M) or [""])[0][:200])
            print(nm, res, flush=True)
            meta.setdefault("checks_quick_tier_violations", {}).update(res)
            json.dump(meta, open(mp, "w"), indent=1)
        finally:
            if scratch: sh("rm -rf %s %s" % (repo, out))
            else: sh("git -C /repo checkout -- ."); sh("rm -f %s/replays/*" % V)
main()
