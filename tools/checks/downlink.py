"""C01 C03 C04 C18 (and the sequential part of C05): downlink path.
TLC: NodeFlowMC (exhaustive, bounded) + quirk counterexamples; R: NodeFlowSim behaviours replayed into the
library; V: random executions; all recorded executions validated by TLC against Trace_Downlink."""
import random, re, json, os
from vlib import build, drv, check, tlc, wire, gen_downlink as g

NAS = [[0, 0, 0], [1, 0, 0], [1, 1, 0], [1, 1, 1], [2, 0, 0]]
TYFN = {34: ("bidib_send_bm_mirror_occ", lambda k: [k % 256]), 1: ("bidib_send_sys_get_magic", lambda k: []),
        12: ("bidib_send_nodetab_getnext", lambda k: []), 23: ("bidib_send_vendor_get", lambda k: [1, [k % 256]]),
        71: ("bidib_send_lc_configx_get", lambda k: [k % 256, 1])}

def nf_cfg(q, addrs, ms, mu, mst, mt, types="{ 34, 1, 12, 23 }", ans="{ 129, 137, 147, 160 }"):
    return ("SPECIFICATION MCSpec\nCONSTANTS\n  Q = {%s}\n  Addrs <- %s\n  Types = %s\n  AnsTypes = %s\n  MaxSend = %d\n  MaxUp = %d\n"
            "  MaxStall = %d\n  MaxTick = %d\nINVARIANTS TypeOk Budget DeferFIFOOnce NotStranded NotStrandedByStall StallSilence SeqConsecutive\n"
            "CHECK_DEADLOCK FALSE\n") % (", ".join('"%s"' % x for x in q), addrs, types, ans, ms, mu, mst, mt)

MC_BOUNDS = {   # (addrs, sends, uplinks, stall notices, ticks)
    # thorough bounds are the largest measured to finish well inside the time limit (8.7M / 3.3M distinct states, about
    # 5 - 10 minutes); one more send or address exceeds 15 minutes
    ("C03", "quick"): ("MC_AddrsSmall", 4, 2, 1, 1), ("C03", "thorough"): ("MC_Addrs", 4, 3, 1, 1),
    ("C04", "quick"): ("MC_AddrsSmall", 3, 1, 3, 0), ("C04", "thorough"): ("MC_Addrs", 3, 2, 3, 0),
}

def na_of(addr): return (list(addr) + [0, 0, 0])[:3]

def script_from_hist(sid, hist):
    s = drv.Script(sid); g.session_start(s); k = 0
    for h in hist:
        if h["e"] == "send":
            k += 1
            fn, ag = TYFN[h["ty"]]
            line, ev = g.ll_line(fn, na_of(h["n"]), ag(k)); s.add(line, ev)
        elif h["e"] == "up":
            line, ev = g.up_line(h["n"], h["ty"], [k % 256]); s.add(line, ev)
        elif h["e"] == "stall":
            line, ev = g.up_line(h["n"], 0x8e, [h["v"]], sv=h["v"]); s.add(line, ev)
        elif h["e"] == "tick":
            s.add("tick %d" % h["v"], {"e": "tick", "d": h["v"]})
    s.add("flush", {"e": "flush"}); s.add("stop")
    return s

def sim_histories(ctx, num, depth, seed):
    r = tlc.run("NodeFlowSim.tla", "NodeFlowSim.cfg", workers=4, simulate=num, depth=depth, timeout=300, seed=seed)
    hs = re.findall(r'"HIST", "(.*)"', r.out)
    tlc.cleanup(r)
    if r.violation or (r.error and not hs):
        ctx.infra_fail("NodeFlowSim: %s %s" % (r.violation, (r.error or "")[:800]))
    out = []
    seen = set()
    for h in hs:
        h = h.replace('\\"', '"')
        if h in seen: continue
        seen.add(h); out.append(json.loads(h))
    return out

def tables_script():
    return drv.Script("tables").add("tables", {"e": "tables", "_copy": ["respinfo"]})

# ---- per-property random generators -----------------------------------------------------------------

def gen_c01(rng, sid, nev):
    """framing: arbitrary data bytes (escape-heavy), long messages, all address depths, flush timing"""
    s = drv.Script(sid); g.session_start(s)
    esc = [0xFE, 0xFD, 0xDE, 0xDD, 0x00, 0x20]
    def blob(n):
        mode = rng.random()
        if mode < 0.3: return [rng.choice(esc) for _ in range(n)]
        if mode < 0.5: return [0xFE] * n
        return [rng.randrange(256) for _ in range(n)]
    for _ in range(nev):
        na = rng.choice(NAS); k = rng.random()
        if k < 0.25:
            n = rng.choice([0, 1, 2, 17, 60, 100, 117, 118]); line, ev = g.ll_line("bidib_send_string_set", na, [rng.choice(esc), rng.randrange(256), n, blob(n)])
        elif k < 0.45:
            a = rng.choice([0, 1, 5, 50, 59]); b = rng.choice([0, 1, 7, 60, 119 - a]) if a < 119 else 0
            line, ev = g.ll_line("bidib_send_vendor_set", na, [a, blob(a), b, blob(b)])
        elif k < 0.6:
            n = rng.choice([0, 1, 16, 64, 120]); d = [x for x in blob(n) if x not in (0x20, 9, 13, 10)] ; line, ev = g.ll_line("bidib_send_fw_update_op_data", na, [len(d), d])
        elif k < 0.7:
            sz = rng.choice([8, 16, 64, 128]); line, ev = g.ll_line("bidib_send_bm_mirror_multiple", na, [rng.randrange(32) * 8, sz, blob(sz // 8)])
        elif k < 0.8:
            line, ev = g.ll_line("bidib_send_sys_ping", na, [rng.choice(esc + [rng.randrange(256)])])
        elif k < 0.9:
            # answers keep the budget free so that messages are admitted immediately
            a = g.addr_of(rng.choice(NAS)); line, ev = g.up_line(a, rng.choice([0x93, 0x95, 0x94, 0x8f, 0x82]), [1, 2])
        else:
            line, ev = "flush", {"e": "flush"}
        s.add(line, ev)
    s.add("flush", {"e": "flush"}); s.add("stop")
    return s

def _bval(rng, lo=None, hi=None):
    c = [0, 1, 2, 7, 8, 9, 15, 16, 31, 32, 59, 60, 63, 64, 70, 71, 100, 118, 119, 120, 121, 122, 126, 127, 128, 129, 151, 152, 191, 192,
         223, 224, 250, 251, 252, 253, 254, 255]
    return rng.choice(c) if rng.random() < 0.8 else rng.randrange(256)

def gen_args(rng, fn, sig):
    args = []
    for p in sig:
        if p == "A": continue
        if p == "B": args.append(_bval(rng))
        elif p.startswith("S:"): args.append([_bval(rng) for _ in range(int(p.split(":")[2]))])
        elif p == "P":
            n = rng.choice([0, 1, 2, 8, 16, 17, 120, 121, 122, 130])
            args.append([rng.choice([0xFF, 0x20, 0x0A, 0x09, 0x0D, 0x0B, 0x0C, 0x00, 0x1F, 0x85, 0xA0, rng.randrange(256)]) for _ in range(n)])
        elif p == "V":
            a = rng.choice([0, 1, 59, 60, 119, 120, 127, 128, 200, 254, 255]); b = rng.choice([0, 1, 59, 60, 119, 120, 127, 128, 200, 254, 255])
            args += [a, [rng.randrange(256) for _ in range(a)], b, [rng.randrange(256) for _ in range(b)]]
    # make length arguments meaningful more often
    if fn in ("bidib_send_fw_update_op_data", "bidib_send_vendor_get") and rng.random() < 0.7: args[0] = min(len(args[1]), 255)
    if fn == "bidib_send_string_set" and rng.random() < 0.7: args[2] = min(len(args[3]), 255)
    if fn == "bidib_send_accessory_para_set_macromap" and rng.random() < 0.8:
        n = rng.choice([0, 1, 2, 15, 16, 17]); args[1] = n; args[2] = [rng.randrange(256) for _ in range(max(n - 1, 0))] + ([0xFF] if n and rng.random() < 0.8 else [1] if n else [])
    if fn == "bidib_send_bm_mirror_multiple" and rng.random() < 0.8:
        args[0] = rng.randrange(32) * 8; args[1] = rng.choice([0, 8, 16, 64, 120, 128, 136]); args[2] = [rng.randrange(256) for _ in range(17)]
    if fn == "bidib_send_lc_configx_set" and rng.random() < 0.8:
        n = rng.choice([0, 1, 2, 7, 8, 9]); args[2] = n; args[3] = [rng.randrange(1, 255) for _ in range(2 * n)]
    if fn == "bidib_send_sys_clock" and rng.random() < 0.7:
        args[:] = [rng.choice([0, 59, 60]), rng.choice([127, 128, 151, 152]), rng.choice([63, 64, 70, 71]), rng.choice([191, 192, 223, 224])]
    return args

def gen_c18(rng, sid, nev):
    """every constructor x boundary arguments x address depth; one flush per call so each outcome is observed alone"""
    import llsigs
    s = drv.Script(sid); g.session_start(s)
    fns = [(fn, sig.split()) for fn, sig in llsigs.SIGS if fn != "bidib_send_sys_reset"]
    for _ in range(nev):
        fn, sig = rng.choice(fns)
        na = rng.choice(NAS + [[255, 254, 253]])
        line, ev = g.ll_line(fn, na, gen_args(rng, fn, sig)); s.add(line, ev)
        s.add("flush", {"e": "flush"})
        if rng.random() < 0.5:
            # free the budget: tick beyond the expiry so that admission never hides an encoding
            s.add("tick 2", {"e": "tick", "d": 2})
    s.add("stop")
    return s

# quirk name -> invariants that state exactly what the quirk breaks (dropped when the quirk is switched on)
NF_QUIRKS = {"SendNoExpiry": ["NotStranded"]}

PROFILES = {
    "C03": dict(weights={"send": 12, "up": 8, "stall": 1, "tick": 2, "flush": 2}, quirks=["PinnedExpiry"]),
    "C04": dict(weights={"send": 10, "up": 3, "stall": 6, "tick": 1, "flush": 2}, quirks=["RootStallIgnored"]),
    "C01": dict(weights=None, quirks=[]),
    "C18": dict(weights=None, quirks=[]),
}

# ---- C01, normal mode: the packet capacity changes (MSG_PKT_CAPACITY notices from the interface, any value 0..255)
# while messages of all sizes wait in the packet buffer; validated against Trace_Track (TLl / TUp / THl / TFlush with
# the per-message capacity stamp)
CAP_EXTRA = ["bidib_send_cs_drive", "bidib_send_bm_mirror_multiple", "bidib_send_sys_clock", "bidib_send_lc_port_query_all",
             "bidib_send_bm_mirror_occ", "bidib_send_bm_mirror_free", "bidib_send_cs_accessory", "bidib_send_string_set", "bidib_send_vendor_set"]

def cap_session(rng, sid, cfgdir, nev, directed=False):
    from vlib import gen_track as gt, cfg as cfgmod
    cfg = cfgmod.gen(rng, nboards=rng.choice([1, 2, 3]), ntrains=rng.choice([1, 2]))
    paths = {}
    for i, b in enumerate(cfg["boards"]):
        paths[b["id"]] = [] if i == 0 else [i]
    s = gt.Session(sid, cfg, cfgdir, paths=paths, full=False)
    s.s.add("bus off")            # after the start-up the nodes say only what the script feeds
    nodes = [list(p) for p in paths.values()] + [[9], [1, 200]]
    sigs = g._sigs()
    kinds = ["ll"] * 12 + ["cap"] * 4 + ["flush"] * 2 + ["hl"] * 3 + ["tick"] + ["up"] * 2
    ZERO = ["bidib_send_bm_mirror_occ", "bidib_send_bm_mirror_free", "bidib_send_bm_mirror_multiple", "bidib_send_sys_clock", "bidib_send_lc_port_query_all"]
    def valid(fn):
        if fn == "bidib_send_sys_clock": return [rng.randrange(60), rng.randrange(128, 152), rng.randrange(64, 71), rng.randrange(192, 224)]
        if fn == "bidib_send_bm_mirror_multiple":
            k = rng.randrange(1, 9); return [rng.randrange(16) * 8, k * 8, [_bval(rng) for _ in range(k)]]
        return gen_args(rng, fn, sigs[fn])
    for _ in range(nev):
        k = rng.choice(kinds)
        if directed and rng.random() < 0.2:
            # the capacity shrinks below what is waiting in the packet buffer, then more is sent
            s.flush(); s.tick(3)
            for n in nodes[:len(paths)]: s.up(n, 0x82, [0])             # nothing held back for any node
            v1 = rng.choice([65, 100, 128, 200, 255]); s.up([], 0x8a, [v1])
            total = 0; want = rng.randrange(40, v1 + 30)
            while total < want:
                fn = rng.choice(ZERO); n = rng.choice(nodes); a = valid(fn)
                s.ll(fn, gt.na3(n), a); total += 8 + len(n)
            s.up([], 0x8a, [rng.choice([0, 64, 64, 70, 100, v1 - 1, rng.randrange(256)])])
            for _ in range(rng.randrange(1, 6)):
                fn = rng.choice(ZERO); s.ll(fn, gt.na3(rng.choice(nodes)), valid(fn))
            if rng.random() < 0.5: s.flush()
            continue
        if k == "ll":
            if rng.random() < 0.5: fn, gen = rng.choice(g.MENU)
            else:
                fn = rng.choice(CAP_EXTRA); gen = lambda r, fn=fn: gen_args(r, fn, sigs[fn])
            n = rng.choice(nodes)
            for _ in range(rng.choice([1, 1, 3, 8])):           # bursts fill the packet
                s.ll(fn, gt.na3(n), gen(rng))
        elif k == "cap":
            v = rng.choice([0, 20, 63, 64, 65, 80, 100, 128, 200, 255, rng.randrange(256)])
            s.up([], 0x8a, [v])
        elif k == "flush": s.flush()
        elif k == "hl":
            fn, sa, i = gt.rand_command(rng, s); s.hl(fn, sa, i)
        elif k == "tick": s.tick(3)
        else: s.up(rng.choice(nodes[:len(paths)]), 0x82, [0])
    s.flush()
    return s.end()

def classify_ll(ev):
    return ev.get("fn", ev.get("e"))

def _conc_stage(ctx, pid, thorough, rng, exe):
    """C01 'every interleaving of concurrently sending threads': senders that also flush, the receiver releasing held messages
    and the auto-flush thread under PCT / random schedules (the write callback is a scheduling point); the bytes of all write
    calls in call order must be well-formed packets carrying every accepted message exactly once (Trace_Conc)"""
    from checks import conc_send
    scripts = []
    for i in range(120 if thorough else 40):
        K = rng.choice([2, 3, 4, 8, 16]) if thorough else rng.choice([2, 3, 4, 8])
        pol = rng.choice(["pct %d 3 %d" % (rng.randrange(10 ** 6), 40 * K), "rnd %d" % rng.randrange(10 ** 6), "rnd %d" % rng.randrange(10 ** 6)])
        scripts.append(conc_send.conc_script(rng, "cw%d" % i, K, rng.choice([3, 5]), pol, flush_ms=rng.choice([0, 0, 20]), feeder=(i % 2 == 0)))
    res = drv.run(exe, scripts, timeout=90)
    items = []
    for s in scripts:
        rr = res.get(s.sid)
        if rr is None or rr.status != "ok":
            ctx.violation("concurrent senders %s: process ended with %s (code %s)" % (s.sid, rr.status if rr else "missing", rr.code if rr else "?"),
                          {"kind": "crash", "script": s.text(), "stderr": rr.stderr[-4000:] if rr else ""}); continue
        ev = conc_send.trace_of(s, rr)
        if ev is None or any(e["e"] == "deadlock" for e in ev):
            ctx.violation("concurrent senders %s did not run to completion" % s.sid, {"kind": "crash", "script": s.text(), "stderr": rr.stderr[-3000:]}); continue
        for o in rr.out.values():
            if o[0].get("op") == "threads": s.decisions = o[0].get("dec"); ctx.cov["evaluations"] += o[0].get("decisions", 0); ctx.distinct(("sched",) + tuple(o[0].get("dec", [])[:40]))
        items.append((s, ev))
    rej = check.validate_scripts(ctx, "Trace_Conc.tla", "Trace_Conc.cfg", items, timeout=900, first_event="creset")
    for s, ev, k, r in rej:
        ctx.violation("concurrent senders %s: the bytes handed to the write callback are not the accepted messages, each once, in well-formed packets: event %d %s refused" % (
            s.sid, k, json.dumps(ev[k])[:300] if k < len(ev) else "(end)"),
            {"kind": "trace", "module": "Trace_Conc.tla", "cfg": "Trace_Conc.cfg", "script": s.text(), "decisions": getattr(s, "decisions", None), "events": ev, "refused_at": k})
    ctx.cov["concurrent_sender_sessions"] = len(items)

def _cap_stage(ctx, pid, thorough, rng, exe):
    import tempfile, shutil
    from vlib import gen_track as gt
    tmp = tempfile.mkdtemp(prefix="vcap_", dir=check.TMP)
    try:
        sessions = [cap_session(rng, "cap%d" % i, os.path.join(tmp, "cap%d" % i), rng.choice([40, 80]), directed=(i % 2 == 0)) for i in range(160 if thorough else 24)]
        res = drv.run(exe, [s.s for s in sessions], timeout=120)
        items = []
        for s in sessions:
            rr = res.get(s.sid)
            if rr is None or rr.status != "ok":
                ctx.violation("session %s: library process ended with %s (code %s) while the packet capacity changed under pending messages" % (
                    s.sid, rr.status if rr else "missing", rr.code if rr else "?"),
                    {"kind": "crash", "script": s.s.text(), "config": s.cfg, "stderr": rr.stderr[-4000:] if rr else ""}); continue
            ev, probs = gt.to_events(s, rr)
            if probs:
                ctx.note("session %s skipped: %s" % (s.sid, "; ".join(probs))); ctx.cov["skipped_sessions"] = ctx.cov.get("skipped_sessions", 0) + 1; continue
            items.append((s, ev))
            for e in ev:
                ctx.cov["evaluations"] += 1
                if e["e"] == "ll": ctx.distinct(("n-ll", e["fn"], "w" if e.get("w") else "-"))
                elif e["e"] == "up" and e["ty"] == 0x8a: ctx.distinct(("cap", e["d"][0], "w" if e.get("w") else "-"))
                else: ctx.distinct(("n-" + e["e"], "w" if e.get("w") else "-"))
        cfgtext, _, _ = check.quirk_cfg("Trace_Track.cfg", pid)
        rej = check.validate_scripts(ctx, "Trace_Track.tla", "_tc.cfg", items, timeout=1800, batch=8, extra_files={"_tc.cfg": cfgtext})
        for s, ev, k, r in rej:
            e = ev[k] if k < len(ev) else {}
            what = "normal-mode execution %s (capacity notices under pending messages) is not a behaviour of the specification: event %d %s refused%s" % (
                s.sid, k, json.dumps({x: e[x] for x in e if x not in ("st", "cfg")})[:500], (" / invariant %s violated" % r.violation) if r.violation else "")
            ctx.violation(what, {"kind": "trace", "module": "Trace_Track.tla", "cfg": "Trace_Track.cfg", "script": s.s.text(), "config": s.cfg, "regen": s.meta(),
                                 "events": ev, "refused_at": k})
        ctx.cov["capacity_sessions"] = len(items)
    finally: shutil.rmtree(tmp, ignore_errors=True)

def run(pid, tier):
    ctx = check.Ctx(pid, tier)
    thorough = tier == "thorough"
    import zlib
    rng = random.Random(ctx.seed * 7919 + zlib.crc32(pid.encode()) % 1000)
    try:
        exe = build.build("asan")
    except build.BuildError as ex:
        ctx.infra_fail("library/driver build failed: %s" % ex); return ctx.finish()

    # ---- 1. the specification itself: exhaustive bounded model + quirk counterexamples (non-vacuity)
    if pid in ("C03", "C04"):
        b = MC_BOUNDS[(pid, tier)]
        cfg = "_mc.cfg"
        r = tlc.run("NodeFlowMC.tla", cfg, workers=16, timeout=3000 if thorough else 400, xmx="24g" if thorough else "8g",
                    extra_files={cfg: nf_cfg([], *b)})
        ctx.add_tlc("NodeFlowMC Q={} bounds=%s" % (b,), r); tlc.cleanup(r)
        if r.violation: ctx.infra_fail("model NodeFlowMC violates %s with Q={}: specification defect" % r.violation)
        elif r.error: ctx.infra_fail("NodeFlowMC: " + r.error[:600])
        for q, qcfg, inv in (("PinnedExpiry", "NodeFlowMC_qexp.cfg", "NotStranded"), ("RootStallIgnored", "NodeFlowMC_qroot.cfg", "StallSilence")):
            if q not in PROFILES[pid]["quirks"]: continue
            r = tlc.run("NodeFlowMC.tla", qcfg, workers=8, timeout=300, extra_files={qcfg: nf_cfg([q], "MC_AddrsSmall", 3, 2, 2, 1)})
            ctx.add_tlc("NodeFlowMC/" + qcfg, r, note="quirk model must violate " + inv); tlc.cleanup(r)
            if r.violation != inv: ctx.infra_fail("quirk %s did not produce the expected counterexample (%s)" % (q, r.violation))
    if pid in ("C03", "C04"):
        # liveness (infinite behaviours, weak fairness): a held message is eventually handed over unless the node is stalled
        # again first; the pinned code's expiry handling must produce the stranded lasso (non-vacuity)
        live = open(tlc.SPEC + "/NodeFlowLive.cfg").read().replace('Q = {"SendNoExpiry"}', "Q = {}")
        if not thorough: live = live.replace("MaxHeld = 2", "MaxHeld = 1")
        r = tlc.run("NodeFlowLive.tla", "_lv.cfg", workers=16, timeout=1800, extra_files={"_lv.cfg": live})
        ctx.add_tlc("NodeFlowLive Q={} (PROPERTY HeldEventuallySent under weak fairness)", r); tlc.cleanup(r)
        if r.violation: ctx.infra_fail("NodeFlowLive violates %s with Q={}: specification defect" % r.violation)
        elif r.error: ctx.infra_fail("NodeFlowLive: " + r.error[:600])
        r = tlc.run("NodeFlowLive.tla", "_lq.cfg", workers=8, timeout=600, extra_files={"_lq.cfg": live.replace("Q = {}", 'Q = {"PinnedExpiry"}')})
        ctx.add_tlc("NodeFlowLive Q={PinnedExpiry}", r, note="the pinned code must strand a held message (lasso)"); tlc.cleanup(r)
        if r.violation != "HeldEventuallySent": ctx.infra_fail("NodeFlowLive with PinnedExpiry did not produce the stranded lasso (%s %s)" % (r.violation, (r.error or "")[:300]))
    mc_cases = []
    if pid == "C18":
        r = tlc.run("LowLevelMC.tla", "LowLevelMC.cfg", workers=1, timeout=900)
        cs = re.findall(r'"CASE", "(.*)"', r.out)
        mc_cases = [json.loads(x.replace('\\"', '"')) for x in cs]
        ctx.add_tlc("LowLevelMC (case analysis: %d boundary cases, consistency ASSUMEs)" % len(mc_cases), r); tlc.cleanup(r)
        ctx.cov["states"] += len(mc_cases); ctx.cov["transitions"] += len(mc_cases)
        ctx.cov["model_cases"] = len(mc_cases)
        if r.error or not mc_cases: ctx.infra_fail("LowLevelMC: " + (r.error or "no cases")[:800])
    if pid == "C01":
        cfg = open(tlc.SPEC + "/WireMC_sender.cfg").read()
        if not thorough: cfg = cfg.replace("MaxAdd = 4", "MaxAdd = 3")
        r = tlc.run("WireMC.tla", "_s.cfg", workers=16, timeout=2400, extra_files={"_s.cfg": cfg}, xmx="16g")
        ctx.add_tlc("Wire sender (batching / flush / capacity), bytes decoded by the independent decoder", r); tlc.cleanup(r)
        if r.violation or r.error: ctx.infra_fail("WireMC sender: %s %s" % (r.violation, (r.error or "")[:500]))
    if pid in ("C01", "C18"):
        r = tlc.run("BytesMC.tla", "BytesMC.cfg", workers=4, timeout=600)
        ctx.add_tlc("BytesMC", r, note="framing operators: ASSUMEs over the escape alphabet"); tlc.cleanup(r)
        if r.error: ctx.infra_fail("BytesMC: " + r.error[:600])
        if r.distinct == 0: pass

    # ---- 2. scripts: R (TLC behaviours) and V (random)
    scripts = [tables_script()]
    if pid in ("C03", "C04"):
        hs = sim_histories(ctx, 400 if thorough else 40, 14, ctx.seed)
        for i, h in enumerate(hs): scripts.append(script_from_hist("sim%d" % i, h))
        ctx.cov["tlc_behaviours_replayed"] = len(hs)
    if mc_cases:
        # one implementation test per model case: call, flush (observe 0 or 1 message), let the budget expire
        step = 1 if thorough else 1
        for ci in range(0, len(mc_cases), 150):
            sc = drv.Script("mc%d" % (ci // 150)); g.session_start(sc)
            for c in mc_cases[ci:ci + 150]:
                line, ev = g.ll_line(c["fn"], c["na"], c["args"]); sc.add(line, ev)
                sc.add("flush", {"e": "flush"}); sc.add("tick 2", {"e": "tick", "d": 2})
                ctx.distinct(("case", c["fn"], c["acc"], tuple(c["na"]), json.dumps(c["args"])))
            sc.add("stop"); scripts.append(sc)
    tb = drv.run(exe, [scripts[0]])["tables"]
    respinfo = tb.out.get(0, [{}])[0].get("respinfo")
    nrand = {"C03": (40, 400), "C04": (40, 400), "C01": (40, 400), "C18": (40, 300)}[pid][1 if thorough else 0]
    for i in range(nrand):
        sid = "rnd%d" % i
        if pid == "C03" and i % 3 == 2: scripts.append(g.gen_pressure(rng, sid, NAS))
        elif pid in ("C03", "C04"): scripts.append(g.gen_random(rng, sid, rng.choice([30, 60, 120]), NAS, weights=PROFILES[pid]["weights"], respinfo=respinfo))
        elif pid == "C01": scripts.append(gen_c01(rng, sid, rng.choice([20, 60])))
        elif pid == "C18": scripts.append(gen_c18(rng, sid, 60))

    # ---- 3. run on the real library
    res = drv.run(exe, scripts, timeout=60)
    items = []
    for s in scripts:
        rr = res.get(s.sid)
        if rr is None or rr.status != "ok":
            st = rr.status if rr else "missing"
            ctx.violation("script %s: library process ended with %s (code %s) - crash / sanitizer report / hang while executing a downlink script"
                          % (s.sid, st, rr.code if rr else "?"),
                          {"kind": "crash", "script": s.text(), "status": st, "stderr": (rr.stderr[-4000:] if rr else "")})
            continue
        ev = drv.to_trace(s, rr)
        if s.sid == "tables":
            ev = [{"e": "reset"}] + [{"e": "tables", "rows": e["respinfo"]} for e in ev]
        items.append((s, ev))
        for e in ev:
            if e["e"] in ("ll", "up", "tick", "flush"):
                ctx.cov["evaluations"] += 1
                ctx.distinct((classify_ll(e), e.get("ty"), "w" if e.get("w") else "-"))
    # ---- 4. trace validation.  Quirks (DESIGN.md section 6): known findings of other properties are switched on (and the
    # invariant they concern is left to the property that owns it); known findings of this property are applied only to
    # executions the literal specification refuses
    base, own, other = check.quirk_cfg("Trace_Downlink.cfg", pid)
    withown, _, _ = check.quirk_cfg("Trace_Downlink.cfg", pid, with_own=True)
    own = {k: v for k, v in own.items() if check.QUIRKS[k][0] == "Q"}
    ctx.cov["quirks_of_other_properties_applied"] = other
    rej = check.validate_scripts(ctx, "Trace_Downlink.tla", "_td.cfg", items, timeout=900, extra_files={"_td.cfg": base})
    for s, ev, k, r in rej:
        if own:
            acc, consumed, r2 = check.validate("Trace_Downlink.tla", "_tk.cfg", ev, timeout=900, extra_files={"_tk.cfg": withown}); tlc.cleanup(r2)
            if acc:
                for kk, vv in own.items(): ctx.known_finding(kk, vv)
                ctx.cov["traces_validated_against_impl"] += 1
                ctx.cov["explained_by_known_finding"] = ctx.cov.get("explained_by_known_finding", 0) + 1
                continue
            k, r = consumed, r2
        what = "execution %s is not a behaviour of the specification: event %d %s refused%s" % (
            s.sid, k, json.dumps(ev[k])[:300] if k < len(ev) else "(end)", (" / invariant %s violated" % r.violation) if r.violation else "")
        state = check.explain("Trace_Downlink.tla", "Trace_Downlink.cfg", ev, k)
        ctx.violation(what, {"kind": "trace", "module": "Trace_Downlink.tla", "cfg": "Trace_Downlink.cfg", "script": s.text(), "events": ev, "regen": {"kind": "script_templates", "templates": s.events},
                             "refused_at": k, "spec_state_before": state})
    if pid == "C01":
        _cap_stage(ctx, pid, thorough, rng, exe)
        _conc_stage(ctx, pid, thorough, rng, exe)
    for s, ev in items[1:4]:
        ctx.sample({"script": s.sid, "events": ev[:12]})
    ctx.cov["rule"] = ("cases = events executed on the real library; distinct = distinct (call or uplink kind, message type, "
                       "wire output yes/no) triples; every event is validated by TLC against Trace_Downlink")
    ctx.assumptions += ["sequential scripts in low-level debug mode (concurrency: C05/C10 checks)",
                        "processing-point reading of C03 'whenever' (DESIGN.md section 8 C03)",
                        "virtual time via interposed time()/usleep()"]
    return ctx.finish()
