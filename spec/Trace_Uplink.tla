---------------------------- MODULE Trace_Uplink ----------------------------
(***************************************************************************)
(* Validation of the receiver (C02) in low-level debug mode, where every   *)
(* message except MSG_STALL surfaces through bidib_read_message.           *)
(*   ureset            new session                                         *)
(*   feed   b          bytes handed out by the read callback (any chunking,*)
(*                     read gaps are invisible here by construction)       *)
(*   drain  msgs errs ints   everything the three queues returned          *)
(* After every drain the messages returned so far must be exactly the      *)
(* messages of the good frames of the stream so far, in stream order.      *)
(***************************************************************************)
EXTENDS Bytes, Tables, Json, IOUtils, TLC

VARIABLES l, stream, got
tuvars == <<l, stream, got>>
Tr == ndJsonDeserialize(IOEnv.TRACE)
Ev == Tr[l]
IsEv(k) == l <= Len(Tr) /\ Tr[l].e = k /\ l' = l + 1

TInit == l = 1 /\ stream = <<>> /\ got = <<>>
TUReset == IsEv("ureset") /\ stream' = <<>> /\ got' = <<>>
TFeed == IsEv("feed") /\ stream' = stream \o Ev.b /\ UNCHANGED got

NotStall(m) == ParseMsg(m).ty # MSG_STALL
Expected(s) == SelectSeq(GoodMsgs(Frames(s)), NotStall)

TDrain == /\ IsEv("drain")
          /\ Len(Ev.errs) = 0 /\ Len(Ev.ints) = 0          \* debug mode: nothing goes to the other queues
          /\ got' = got \o Ev.msgs
          /\ got' = Expected(stream)
          /\ UNCHANGED stream

TNext == TUReset \/ TFeed \/ TDrain
TSpec == TInit /\ [][TNext]_tuvars
TraceAccepted == TLCGet("stats").diameter - 1 = Len(Tr)
NotAccepted == l <= Len(Tr)
=============================================================================
