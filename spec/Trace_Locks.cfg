SPECIFICATION TSpec
INVARIANTS OrderAcyclic
CONSTRAINT Report
POSTCONDITION TraceAccepted
CHECK_DEADLOCK FALSE
