SPECIFICATION Spec
CONSTANTS
  Threads = {1, 2, 3}
  Plan <- P3
  Nodes = {1, 2}
  Limit = 10
  InitSeq = 254
  MaxAnswers = 2
  Variant = "single"
INVARIANTS SeqConsecutive NoDup AllAccounted HeldInOrder BudgetOk
CHECK_DEADLOCK FALSE
