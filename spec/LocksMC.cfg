SPECIFICATION MSpec
CONSTANT K = 2
INVARIANT NoDeadlock
CHECK_DEADLOCK FALSE
