#!/bin/bash
# confirm_seed.sh <worktree> <seeddir> <demo-build-cmd-template using WT for the worktree and OUT for the binary>
# Confirms: patch applies, library builds, the 49 unit tests pass with the patch, demo fails with / passes without.
WT=$1; SD=$2; shift 2; DEMO="$*"
set -o pipefail
cd $WT || exit 2
git checkout -q -- . ; rm -rf _cb
cmake -G Ninja -B _cb -S . >/dev/null 2>&1 && cmake --build _cb >/dev/null 2>&1 || { echo "BASE BUILD FAILED"; exit 2; }
cmd=${DEMO//WT/$WT}
bash -c "${cmd//LIBDIR/_cb} -o $SD/demo_base_c" || { echo "DEMO BASE BUILD FAILED"; exit 2; }
( cd $SD && timeout 120 ./demo_base_c $DEMO_ARGS >/dev/null 2>&1 ); echo "demo without patch: exit $?"
git apply $SD/patch.diff || { echo "PATCH DOES NOT APPLY"; exit 2; }
cmake --build _cb >/dev/null 2>&1 || { echo "PATCHED BUILD FAILED"; exit 2; }
bash -c "${cmd//LIBDIR/_cb} -o $SD/demo_patched_c" || { echo "DEMO PATCHED BUILD FAILED"; exit 2; }
( cd $SD && timeout 120 ./demo_patched_c $DEMO_ARGS >/dev/null 2>&1 ); echo "demo with patch: exit $?"
ctest --test-dir _cb -j8 --timeout 900 2>&1 | tail -4
for t in _cb/bidib_*_tests; do ( cd _cb && ./$(basename $t) 2>&1 | grep -c "\[       OK \]" ); done | paste -sd+ | bc | sed 's/^/cmocka cases OK: /'
git checkout -q -- . ; rm -rf _cb
