-------------------------------- MODULE Track --------------------------------
(***************************************************************************)
(* Track-state model of libbidib: the state the getters report, as the     *)
(* fold of feedback messages and own commands over the initial state of a  *)
(* configuration (C07 C08), the messages every high-level command has to   *)
(* submit (C09), the destination of every uplink message in normal mode    *)
(* (C06), the secure-ACK mirrors (C19) and the node-new/lost bookkeeping   *)
(* (C15).  Pure operators over a configuration value c and a state record  *)
(* ts; the variables live in the modules that use them (TrackMC,           *)
(* Trace_Track).                                                           *)
(*                                                                         *)
(* Conventions: booleans are 0/1 (that is what the projection of the C     *)
(* structs prints); node addresses are sequences of 0..3 non-zero bytes;   *)
(* entity tables are functions id -> record.                               *)
(*                                                                         *)
(* c = [boards: Seq([id, uid(7), features: Seq([num,val])]),               *)
(*      track:  Seq([id, pb, sb: Seq([id,num,aspects: Seq([id,val]),initial]),     *)
(*                   pd, sd: Seq([id,al,ah,ext,aspects: Seq([id,ports: Seq([port,val])]),initial]), *)
(*                   per: Seq([id,num,p0,p1,aspects,initial]), seg: Seq([id,addr]), rev: Seq([id,cv])]), *)
(*      trains: Seq([id,al,ah,steps,cal: Seq(Int),per: Seq([id,bit,initial])])]   *)
(***************************************************************************)
EXTENDS Naturals, Integers, Sequences, FiniteSets, Tables

CONSTANT TQ     \* quirk names (DESIGN.md section 6): {} = the property; "MirrorPos3" = pinned code mirrors only 3 of the 5 position bytes

Bit(x, i) == (x \div (2^i)) % 2
RangeS(s) == {s[i] : i \in DOMAIN s}
MinOf(S) == CHOOSE x \in S : \A y \in S : x <= y
Signed8(v) == IF v >= 128 THEN v - 256 ELSE v
SelSeq(s, T(_)) == SelectSeq(s, T)

(* ------------------------------------------------------------ configuration *)
BoardIds(c) == {c.boards[i].id : i \in DOMAIN c.boards}
BoardRec(c, b) == c.boards[MinOf({i \in DOMAIN c.boards : c.boards[i].id = b})]
Uid(c, b) == BoardRec(c, b).uid
IsBooster(c, b) == Bit(Uid(c, b)[1], 1) = 1
IsTrackOutput(c, b) == Bit(Uid(c, b)[1], 4) = 1
IsInterface(c, b) == Bit(Uid(c, b)[1], 7) = 1
SecAck(c, b) == \E f \in RangeS(BoardRec(c, b).features) : f.num = 3 /\ f.val > 0

EmptySec(b) == [id |-> b, pb |-> <<>>, sb |-> <<>>, pd |-> <<>>, sd |-> <<>>, per |-> <<>>, seg |-> <<>>, rev |-> <<>>]
Sec(c, b) == LET S == {i \in DOMAIN c.track : c.track[i].id = b} IN IF S = {} THEN EmptySec(b) ELSE c.track[MinOf(S)]
Kinds == {"pb", "sb", "pd", "sd", "per", "seg", "rev"}
AllOf(c, k) == UNION {RangeS(c.track[i][k]) : i \in DOMAIN c.track}
Ids(c, k) == {x.id : x \in AllOf(c, k)}
Ent(c, k, id) == CHOOSE x \in AllOf(c, k) : x.id = id
OwnerOf(c, k, id) == LET S == {i \in DOMAIN c.track : \E x \in RangeS(c.track[i][k]) : x.id = id} IN c.track[MinOf(S)].id
TrainIds(c) == {c.trains[i].id : i \in DOMAIN c.trains}
Train(c, t) == c.trains[MinOf({i \in DOMAIN c.trains : c.trains[i].id = t})]
BoosterIds(c) == {b \in BoardIds(c) : IsBooster(c, b)}
TrackOutputIds(c) == {b \in BoardIds(c) : IsTrackOutput(c, b)}

First(s, T(_)) == LET S == {i \in DOMAIN s : T(s[i])} IN IF S = {} THEN 0 ELSE MinOf(S)
AspectId(aspects, v) == LET i == First(aspects, LAMBDA a : a.val = v) IN IF i = 0 THEN "unknown" ELSE aspects[i].id
AspectById(aspects, id) == First(aspects, LAMBDA a : a.id = id)

(* ----------------------------------------------------------- initial state *)
BoardAcc0 == [sid |-> "unknown", val |-> 0, exec |-> 2, wait |-> 0]
DccAcc0 == [sid |-> "unknown", val |-> 0, coil |-> 0, oct |-> 0, ack |-> 4, tu |-> 0, st |-> 0]
Per0 == [sid |-> "unknown", val |-> 0, tu |-> 0, wait |-> 0]
Seg0 == [occ |-> 0, cv |-> 0, fr |-> 0, ns |-> 0, pk |-> 0, po |-> 0, pc |-> 0, addrs |-> <<>>]
Rev0 == [sid |-> "unknown", val |-> 2]
Trn0(c, t) == [on |-> 0, oris |-> {0}, spd |-> 0, fwd |-> 1, ack |-> 4, kmh |-> 0,
               per |-> [p \in {x.id : x \in RangeS(Train(c, t).per)} |-> 0],
               sqk |-> 0, sq |-> 0, tk |-> 0, t |-> 0, ek |-> 0, en |-> 0, c2k |-> 0, c2 |-> 0, c3k |-> 0, c3 |-> 0]
Bst0 == [ps |-> 0, pss |-> 1, pk |-> 0, po |-> 0, pc |-> 0, vk |-> 0, v |-> 0, tk |-> 0, t |-> 0]
To0 == [cs |-> 0]

(* conn / addr are the allocation table; State0 is the tracked state right after a (re)start's state reset *)
State0(c) == [pb |-> [i \in Ids(c, "pb") |-> BoardAcc0], sb |-> [i \in Ids(c, "sb") |-> BoardAcc0],
              pd |-> [i \in Ids(c, "pd") |-> DccAcc0], sd |-> [i \in Ids(c, "sd") |-> DccAcc0],
              per |-> [i \in Ids(c, "per") |-> Per0], seg |-> [i \in Ids(c, "seg") |-> Seg0],
              rev |-> [i \in Ids(c, "rev") |-> Rev0], trn |-> [t \in TrainIds(c) |-> Trn0(c, t)],
              bst |-> [b \in BoosterIds(c) |-> Bst0], to |-> [b \in TrackOutputIds(c) |-> To0],
              conn |-> [b \in BoardIds(c) |-> 0], addr |-> [b \in BoardIds(c) |-> <<>>]]

(* ----------------------------------------------------------------- lookups *)
(* the connected board that owns node address n ("" if none) *)
Sender(c, ts, n) == LET S == {i \in DOMAIN c.boards : ts.conn[c.boards[i].id] = 1 /\ ts.addr[c.boards[i].id] = n}
                    IN IF S = {} THEN "" ELSE c.boards[MinOf(S)].id
SegByNum(c, b, num) == IF b = "" THEN "" ELSE LET s == Sec(c, b).seg  i == First(s, LAMBDA x : x.addr = num) IN IF i = 0 THEN "" ELSE s[i].id
TrainByDcc(c, al, ah) == LET i == First(c.trains, LAMBDA t : t.al = al /\ t.ah = ah % 64) IN IF i = 0 THEN "" ELSE c.trains[i].id
(* board accessory by number: points are searched before signals *)
BoardAccByNum(c, b, num) ==
    IF b = "" THEN [k |-> "", id |-> ""] ELSE
    LET p == First(Sec(c, b).pb, LAMBDA x : x.num = num)  s == First(Sec(c, b).sb, LAMBDA x : x.num = num) IN
    IF p # 0 THEN [k |-> "pb", id |-> Sec(c, b).pb[p].id] ELSE IF s # 0 THEN [k |-> "sb", id |-> Sec(c, b).sb[s].id] ELSE [k |-> "", id |-> ""]
DccAccByAddr(c, b, al, ah) ==
    IF b = "" THEN [k |-> "", id |-> ""] ELSE
    LET p == First(Sec(c, b).pd, LAMBDA x : x.al = al /\ x.ah = ah)  s == First(Sec(c, b).sd, LAMBDA x : x.al = al /\ x.ah = ah) IN
    IF p # 0 THEN [k |-> "pd", id |-> Sec(c, b).pd[p].id] ELSE IF s # 0 THEN [k |-> "sd", id |-> Sec(c, b).sd[s].id] ELSE [k |-> "", id |-> ""]
PerByPort(c, b, p0, p1) == IF b = "" THEN "" ELSE LET s == Sec(c, b).per  i == First(s, LAMBDA x : x.p0 = p0 /\ x.p1 = p1) IN IF i = 0 THEN "" ELSE s[i].id
RevByCv(c, b, cv) == IF b = "" THEN "" ELSE LET s == Sec(c, b).rev  i == First(s, LAMBDA x : x.cv = cv) IN IF i = 0 THEN "" ELSE s[i].id
BoardByUid(c, uid) == LET i == First(c.boards, LAMBDA x : x.uid = uid) IN IF i = 0 THEN "" ELSE c.boards[i].id

(* ------------------------------------------- derived train availability (C08) *)
Lists(a, t) == \E i \in DOMAIN a : a[i][1] = t.al /\ a[i][2] = t.ah
OrisIn(a, t) == {IF a[i][3] = 0 THEN 0 ELSE 1 : i \in {j \in DOMAIN a : a[j][1] = t.al /\ a[j][2] = t.ah}}
Position(c, ts, t) == {s \in DOMAIN ts.seg : Lists(ts.seg[s].addrs, Train(c, t))}
Avail(c, ts) ==
    [ts EXCEPT !.trn = [t \in DOMAIN @ |->
        LET P == Position(c, ts, t) IN
        IF P = {} THEN [@[t] EXCEPT !.on = 0]
        ELSE [@[t] EXCEPT !.on = 1, !.oris = UNION {OrisIn(ts.seg[s].addrs, Train(c, t)) : s \in P}]]]

(* ------------------------------------------------------------ conversions *)
PcOf(cur) == IF cur = 0 THEN [pk |-> 1, po |-> 0, pc |-> 0]
             ELSE IF cur < 16 THEN [pk |-> 1, po |-> 0, pc |-> cur]
             ELSE IF cur < 64 THEN [pk |-> 1, po |-> 0, pc |-> (cur - 12) * 4]
             ELSE IF cur < 128 THEN [pk |-> 1, po |-> 0, pc |-> (cur - 51) * 16]
             ELSE IF cur < 192 THEN [pk |-> 1, po |-> 0, pc |-> (cur - 108) * 64]
             ELSE IF cur < 251 THEN [pk |-> 1, po |-> 0, pc |-> (cur - 171) * 256]
             ELSE IF cur = 254 THEN [pk |-> 1, po |-> 1, pc |-> 0]
             ELSE [pk |-> 0, po |-> 0, pc |-> 0]
SetPc(r, cur) == LET p == PcOf(cur) IN [r EXCEPT !.pk = p.pk, !.po = p.po, !.pc = p.pc]

BoosterSimple(st) == IF st \in {128, 129, 130, 132} THEN 0          \* ON, ON_LIMIT, ON_HOT, ON_HERE
                     ELSE IF st \in {0, 4, 5, 6, 3} THEN 1           \* OFF, GO_REQ, HERE, NO_DCC, NOPOWER
                     ELSE 2                                           \* ON_STOP_REQ, OFF_SHORT, OFF_HOT, anything else: error

(* library speed step -126..126 <-> DCC speed byte *)
DccToLib(sp) == LET s == sp % 128 IN IF s <= 1 THEN 0 ELSE IF sp >= 128 THEN s - 1 ELSE 0 - (s - 1)
LibToDcc(mag, fwd) == fwd * 128 + mag + (IF mag # 0 THEN 1 ELSE 0)
DccFormat(steps) == IF steps = 28 THEN 2 ELSE IF steps = 126 THEN 3 ELSE 0

(* effect of a drive command / manual drive report on a train: p = [al,ah,active,speed,f1,f2,f3,f4] *)
FnBit(p, i) == Bit(<<p.f1, p.f2, p.f3, p.f4>>[(i \div 8) + 1], i % 8)
GroupOf(bit) == IF bit < 5 THEN 1 ELSE IF bit < 8 THEN 0 ELSE IF bit < 12 THEN 2 ELSE IF bit < 16 THEN 3 ELSE IF bit < 24 THEN 4 ELSE 5
DriveEffect(c, ts, p) ==
    LET t == TrainByDcc(c, p.al, p.ah) IN
    IF t = "" THEN ts ELSE
    LET tr == Train(c, t)
        bitOf(pid) == tr.per[First(tr.per, LAMBDA x : x.id = pid)].bit
    IN IF p.active = 0
       THEN [ts EXCEPT !.trn[t].spd = 0, !.trn[t].fwd = 1, !.trn[t].per = [q \in DOMAIN @ |-> 0]]
       ELSE [ts EXCEPT !.trn[t].spd = IF Bit(p.active, 0) = 1 THEN DccToLib(p.speed) ELSE @,
                       !.trn[t].fwd = IF Bit(p.active, 0) = 1 THEN (IF p.speed >= 128 THEN 1 ELSE 0) ELSE @,
                       !.trn[t].ack = 4,
                       !.trn[t].per = [q \in DOMAIN @ |->
                            LET g == GroupOf(bitOf(q)) IN
                            IF g # 0 /\ Bit(p.active, g) = 1 THEN FnBit(p, bitOf(q)) ELSE @[q]]]

(* effect of an own DCC accessory command on the accessory addressed by (sender board of n, dcc address) *)
AccessoryEffect(c, ts, n, al, ah, data, time) ==
    LET a == DccAccByAddr(c, Sender(c, ts, n), al, ah) IN
    IF a.k = "" THEN ts
    ELSE [ts EXCEPT ![a.k][a.id] = [@ EXCEPT !.sid = "unknown", !.val = data % 32, !.coil = Bit(data, 5),
                                              !.oct = 1 - Bit(data, 6), !.tu = Bit(time, 7), !.st = time % 128]]

(* ------------------------------------------------------- uplink messages *)
Msg(n, ty, data) == [n |-> n, ty |-> ty, data |-> data]
NoOut == <<>>
UpRes(ts, out, q, fl) == [ts |-> ts, out |-> out, q |-> q, flush |-> fl]

(* minimal payload length a message of this type needs to be interpreted (shorter ones are C12's subject) *)
MinData(ty, d) ==
    CASE ty \in {MSG_BM_OCC, MSG_BM_FREE, MSG_CS_STATE, MSG_BOOST_STAT, MSG_PKT_CAPACITY, MSG_STALL, MSG_CS_DRIVE_EVENT, MSG_NODETAB_COUNT} -> 1
      [] ty = MSG_SYS_ERROR -> IF Len(d) >= 1 /\ d[1] \in {4, 16} THEN 2 ELSE 1        \* sequence / bus errors carry a detail byte
      [] ty = MSG_FEATURE -> 2
      [] ty = MSG_NODETAB -> 9
      [] ty = MSG_BM_MULTIPLE -> IF Len(d) >= 2 THEN 2 + ((d[2] + 7) \div 8) ELSE 2
      [] ty \in {MSG_BM_CONFIDENCE, MSG_CS_DRIVE_ACK, MSG_CS_ACCESSORY_ACK, MSG_CS_ACCESSORY_MANUAL, MSG_LC_STAT, MSG_LC_WAIT} -> 3
      [] ty = MSG_BM_POSITION -> 5
      [] ty = MSG_BM_ADDRESS -> 1
      [] ty = MSG_BM_CURRENT -> 2
      [] ty = MSG_BM_SPEED -> 4
      [] ty \in {MSG_BM_DYN_STATE, MSG_ACCESSORY_STATE, MSG_ACCESSORY_NOTIFY} -> 5
      [] ty \in {MSG_CS_DRIVE_MANUAL, MSG_NODE_NEW, MSG_NODE_LOST} -> 9
      [] ty = MSG_VENDOR -> IF Len(d) >= 1 /\ Len(d) >= d[1] + 2 THEN d[1] + 2 + d[d[1] + 2] ELSE 300
      [] OTHER -> 0

SegUpd(c, ts, s, occ) == [ts EXCEPT !.seg[s].occ = occ, !.seg[s].addrs = IF occ = 0 THEN <<>> ELSE @]

RECURSIVE MultiFold(_, _, _, _, _)
MultiFold(c, ts, b, d, i) ==       \* i = 0 .. size-1
    IF i >= d[2] THEN ts
    ELSE LET s == IF d[1] + i <= 255 THEN SegByNum(c, b, d[1] + i) ELSE ""
             bit == Bit(d[3 + (i \div 8)], i % 8)
         IN MultiFold(c, IF s = "" THEN ts ELSE SegUpd(c, ts, s, bit), b, d, i + 1)

AddrList(d) ==      \* d[1] = detector, then (low, high) pairs
    LET cnt == (Len(d) - 1) \div 2
        ent(i) == <<d[2 * i], d[2 * i + 1] % 64, (d[2 * i + 1] \div 64) % 4>>
        all == [i \in 1..cnt |-> ent(i)]
    IN IF cnt = 1 /\ d[2] = 0 /\ d[3] = 0 THEN <<>>
       ELSE SelectSeq(all, LAMBDA e : e[3] % 2 = 0)          \* bit 6 of the high byte marks accessory decoders

RECURSIVE DiagFold(_, _, _)
DiagFold(r, d, i) ==
    IF i + 1 > Len(d) THEN r
    ELSE LET k == d[i]  v == d[i + 1]
             r2 == IF k = 0 THEN SetPc(r, v)
                   ELSE IF k = 1 THEN (IF v < 251 THEN [r EXCEPT !.vk = 1, !.v = v] ELSE [r EXCEPT !.vk = 0])
                   ELSE IF k = 2 THEN [r EXCEPT !.tk = 1, !.t = Signed8(v)]
                   ELSE r
         IN DiagFold(r2, d, i + 2)

Mirror(c, ts, n, ty, data) == IF Sender(c, ts, n) # "" /\ SecAck(c, Sender(c, ts, n)) THEN <<Msg(n, ty, data)>> ELSE <<>>

(* the effect of one uplink message (normal mode) from node n: new state, messages the library submits in reply
   (out), the queue the message itself is appended to ("msg" / "err" / "int" / "none"), and whether the reply is
   flushed at once *)
Up(c, ts, n, ty, d) ==
    LET b == Sender(c, ts, n) IN
    CASE ty = MSG_BM_OCC ->
            LET s == SegByNum(c, b, d[1]) IN
            UpRes(IF s = "" THEN ts ELSE Avail(c, SegUpd(c, ts, s, 1)), Mirror(c, ts, n, MSG_BM_MIRROR_OCC, <<d[1]>>), "none", TRUE)
      [] ty = MSG_BM_FREE ->
            LET s == SegByNum(c, b, d[1]) IN
            UpRes(IF s = "" THEN ts ELSE Avail(c, SegUpd(c, ts, s, 0)), Mirror(c, ts, n, MSG_BM_MIRROR_FREE, <<d[1]>>), "none", TRUE)
      [] ty = MSG_BM_MULTIPLE ->
            UpRes(IF b = "" THEN ts ELSE Avail(c, MultiFold(c, ts, b, d, 0)),
              Mirror(c, ts, n, MSG_BM_MIRROR_MULTIPLE, SubSeq(d, 1, 2 + ((d[2] + 7) \div 8))), "none", TRUE)
      [] ty = MSG_BM_ADDRESS ->
            LET s == SegByNum(c, b, d[1]) IN
            UpRes(IF s = "" THEN ts ELSE Avail(c, [ts EXCEPT !.seg[s].addrs = AddrList(d)]), NoOut, "none", FALSE)
      [] ty = MSG_BM_CONFIDENCE ->
            UpRes(IF b = "" THEN ts
              ELSE [ts EXCEPT !.seg = [s \in DOMAIN @ |-> IF \E x \in RangeS(Sec(c, b).seg) : x.id = s
                                                        THEN [@[s] EXCEPT !.cv = IF d[1] # 0 THEN 1 ELSE 0, !.fr = IF d[2] # 0 THEN 1 ELSE 0,
                                                                          !.ns = IF d[3] # 0 THEN 1 ELSE 0]
                                                        ELSE @[s]]], NoOut, "none", FALSE)
      [] ty = MSG_BM_CURRENT ->
            LET s == SegByNum(c, b, d[1]) IN UpRes(IF s = "" THEN ts ELSE [ts EXCEPT !.seg[s] = SetPc(@, d[2])], NoOut, "none", FALSE)
      [] ty = MSG_BM_SPEED ->
            LET t == TrainByDcc(c, d[1], d[2]) IN UpRes(IF t = "" THEN ts ELSE [ts EXCEPT !.trn[t].kmh = d[4] * 256 + d[3]], NoOut, "none", FALSE)
      [] ty = MSG_BM_DYN_STATE ->
            LET t == TrainByDcc(c, d[2], d[3])  k == d[4]  v == d[5] IN
            UpRes(IF t = "" THEN ts
              ELSE IF k = 1 THEN [ts EXCEPT !.trn[t].sqk = 1, !.trn[t].sq = v]
              ELSE IF k = 2 THEN [ts EXCEPT !.trn[t].tk = 1, !.trn[t].t = Signed8(v)]
              ELSE IF k = 3 THEN [ts EXCEPT !.trn[t].ek = 1, !.trn[t].en = v]
              ELSE IF k = 4 THEN [ts EXCEPT !.trn[t].c2k = 1, !.trn[t].c2 = v]
              ELSE IF k = 5 THEN [ts EXCEPT !.trn[t].c3k = 1, !.trn[t].c3 = v]
              ELSE ts, NoOut, "none", FALSE)
      [] ty = MSG_BOOST_STAT ->
            UpRes(IF b = "" \/ ~IsBooster(c, b) THEN ts ELSE [ts EXCEPT !.bst[b].ps = d[1], !.bst[b].pss = BoosterSimple(d[1])],
              NoOut, IF BoosterSimple(d[1]) = 2 THEN "err" ELSE "none", FALSE)
      [] ty = MSG_BOOST_DIAGNOSTIC ->
            UpRes(IF b = "" \/ ~IsBooster(c, b) THEN ts ELSE [ts EXCEPT !.bst[b] = DiagFold(@, d, 1)], NoOut, "none", FALSE)
      [] ty = MSG_CS_STATE ->
            UpRes(IF b = "" \/ ~IsTrackOutput(c, b) THEN ts ELSE [ts EXCEPT !.to[b].cs = d[1]], NoOut, "none", FALSE)
      [] ty = MSG_CS_DRIVE_ACK ->
            LET t == TrainByDcc(c, d[1], d[2]) IN UpRes(IF t = "" THEN ts ELSE [ts EXCEPT !.trn[t].ack = d[3]], NoOut, "none", FALSE)
      [] ty = MSG_CS_ACCESSORY_ACK ->
            LET a == DccAccByAddr(c, b, d[1], d[2]) IN UpRes(IF a.k = "" THEN ts ELSE [ts EXCEPT ![a.k][a.id].ack = d[3]], NoOut, "none", FALSE)
      [] ty = MSG_CS_DRIVE_MANUAL ->
            UpRes(DriveEffect(c, ts, [al |-> d[1], ah |-> d[2], active |-> d[4], speed |-> d[5], f1 |-> d[6], f2 |-> d[7], f3 |-> d[8], f4 |-> d[9]]),
              NoOut, "none", FALSE)
      [] ty = MSG_CS_ACCESSORY_MANUAL ->
            LET a == DccAccByAddr(c, b, d[1], d[2]) IN
            UpRes(IF a.k = "" THEN ts ELSE [ts EXCEPT ![a.k][a.id] = [@ EXCEPT !.val = d[3] % 32, !.coil = Bit(d[3], 5), !.st = 0]], NoOut, "none", FALSE)
      [] ty = MSG_LC_STAT ->
            LET p == PerByPort(c, b, d[1], d[2]) IN
            UpRes(IF p = "" THEN ts ELSE [ts EXCEPT !.per[p].sid = AspectId(Ent(c, "per", p).aspects, d[3]), !.per[p].val = d[3]], NoOut, "none", FALSE)
      [] ty = MSG_LC_WAIT ->
            LET p == PerByPort(c, b, d[1], d[2]) IN
            UpRes(IF p = "" THEN ts ELSE [ts EXCEPT !.per[p].tu = Bit(d[3], 7), !.per[p].wait = d[3] % 128], NoOut, "none", FALSE)
      [] ty \in {MSG_ACCESSORY_STATE, MSG_ACCESSORY_NOTIFY} ->
            LET a == BoardAccByNum(c, b, d[1]) IN
            UpRes(IF a.k = "" THEN ts
              ELSE [ts EXCEPT ![a.k][a.id] = [sid |-> AspectId(Ent(c, a.k, a.id).aspects, d[2]), val |-> d[2], exec |-> d[4], wait |-> d[5]]],
              IF ty = MSG_ACCESSORY_NOTIFY /\ d[1] <= 127 THEN <<Msg(n, MSG_ACCESSORY_GET, <<d[1]>>)>> ELSE NoOut,     \* accessory numbers are 0..127
              IF d[4] = 128 THEN "err" ELSE "none", FALSE)
      [] ty = MSG_VENDOR ->
            LET nl == d[1]  name == SubSeq(d, 2, 1 + nl)  vl == d[nl + 2]  val == SubSeq(d, nl + 3, nl + 2 + vl)
                r == RevByCv(c, b, name)
            IN UpRes(IF r = "" THEN ts
                 ELSE [ts EXCEPT !.rev[r] = [sid |-> r, val |-> IF vl >= 1 /\ val[1] = 48 THEN 0 ELSE IF vl >= 1 /\ val[1] = 51 THEN 1 ELSE 2]],
                 NoOut, "none", FALSE)
      [] ty = MSG_NODE_NEW ->
            LET nb == BoardByUid(c, SubSeq(d, 3, 9)) IN
            UpRes(IF nb = "" THEN ts ELSE [ts EXCEPT !.conn[nb] = 1, !.addr[nb] = IF Len(n) < 3 THEN Append(n, d[2]) ELSE <<n[1], n[2], d[2]>>],
              <<Msg(n, MSG_NODE_CHANGED_ACK, <<d[1]>>)>>, "none", TRUE)
      [] ty = MSG_NODE_LOST ->
            LET nb == BoardByUid(c, SubSeq(d, 3, 9)) IN
            UpRes(IF nb = "" THEN ts
              ELSE [ts EXCEPT !.conn = [x \in DOMAIN @ |->
                        IF x = nb THEN 0
                        ELSE IF IsInterface(c, nb) /\ Len(ts.addr[nb]) < Len(ts.addr[x]) /\ SubSeq(ts.addr[x], 1, Len(ts.addr[nb])) = ts.addr[nb] THEN 0
                        ELSE @[x]]],
              <<Msg(n, MSG_NODE_CHANGED_ACK, <<d[1]>>)>>, "none", TRUE)
      [] ty = MSG_BM_POSITION -> UpRes(ts, Mirror(c, ts, n, MSG_BM_MIRROR_POSITION, IF "MirrorPos3" \in TQ THEN SubSeq(d, 1, 3) ELSE SubSeq(d, 1, 5)), "msg", TRUE)
      [] ty = MSG_CS_DRIVE_EVENT -> UpRes(ts, NoOut, IF d[1] = 1 THEN "err" ELSE "none", FALSE)
      [] ty \in {MSG_SYS_MAGIC, MSG_NODETAB_COUNT, MSG_NODETAB, MSG_FEATURE_COUNT, MSG_FEATURE} -> UpRes(ts, NoOut, "int", FALSE)
      [] ty \in {MSG_SYS_ERROR, MSG_NODE_NA, MSG_FEATURE_NA, MSG_LC_NA} -> UpRes(ts, NoOut, "err", FALSE)
      [] ty \in {MSG_PKT_CAPACITY, MSG_STALL} -> UpRes(ts, NoOut, "none", FALSE)
      [] OTHER -> UpRes(ts, NoOut, "msg", FALSE)

(* types whose processing changes tracked state or emits something (used by generators / coverage) *)
StateTypes == {MSG_BM_OCC, MSG_BM_FREE, MSG_BM_MULTIPLE, MSG_BM_ADDRESS, MSG_BM_CONFIDENCE, MSG_BM_CURRENT, MSG_BM_SPEED, MSG_BM_DYN_STATE,
               MSG_BOOST_STAT, MSG_BOOST_DIAGNOSTIC, MSG_CS_STATE, MSG_CS_DRIVE_ACK, MSG_CS_ACCESSORY_ACK, MSG_CS_DRIVE_MANUAL,
               MSG_CS_ACCESSORY_MANUAL, MSG_LC_STAT, MSG_LC_WAIT, MSG_ACCESSORY_STATE, MSG_ACCESSORY_NOTIFY, MSG_VENDOR, MSG_NODE_NEW, MSG_NODE_LOST}

(* ------------------------------------------------------ high-level commands *)
CmdRes(ts, out, ret) == [ts |-> ts, out |-> out, ret |-> ret]
Fail(ts) == CmdRes(ts, <<>>, 1)
Connected(ts, b) == b \in DOMAIN ts.conn /\ ts.conn[b] = 1

(* switch_point / set_signal: kb = "pb"|"sb", kd = "pd"|"sd" *)
SetAccessory(c, ts, kb, kd, id, aspect) ==
    IF id \in Ids(c, kb) THEN
        LET e == Ent(c, kb, id)  b == OwnerOf(c, kb, id)  i == AspectById(e.aspects, aspect) IN
        IF ~Connected(ts, b) \/ i = 0 THEN Fail(ts)
        ELSE CmdRes(ts, <<Msg(ts.addr[b], MSG_ACCESSORY_SET, <<e.num, e.aspects[i].val>>)>>, 0)
    ELSE IF id \in Ids(c, kd) THEN
        LET e == Ent(c, kd, id)  b == OwnerOf(c, kd, id)  i == AspectById(e.aspects, aspect) IN
        IF ~Connected(ts, b) \/ i = 0 THEN Fail(ts)
        ELSE LET ports == e.aspects[i].ports
                 dat(k) == (ports[k].port % 32) + 32 * (ports[k].val % 8) + 128 * (e.ext % 2)
                 out == [k \in 1..Len(ports) |-> Msg(ts.addr[b], MSG_CS_ACCESSORY, <<e.al, e.ah, dat(k) % 256, 0>>)]
                 last == dat(Len(ports)) % 256
                 ts2 == IF Len(ports) = 0 THEN ts
                        ELSE [ts EXCEPT ![kd][id] = [@ EXCEPT !.val = last % 32, !.coil = Bit(last, 5), !.oct = 1 - Bit(last, 6), !.tu = 0, !.st = 0]]
             IN CmdRes([ts2 EXCEPT ![kd][id].sid = e.aspects[i].id], out, 0)
    ELSE Fail(ts)

SetPeripheral(c, ts, id, aspect) ==
    IF id \notin Ids(c, "per") THEN Fail(ts) ELSE
    LET e == Ent(c, "per", id)  b == OwnerOf(c, "per", id)  i == AspectById(e.aspects, aspect) IN
    IF ~Connected(ts, b) \/ i = 0 THEN Fail(ts)
    ELSE CmdRes(ts, <<Msg(ts.addr[b], MSG_LC_OUTPUT, <<e.p0, e.p1, e.aspects[i].val>>)>>, 0)

DriveMsg(c, ts, t, to, active, speed, f) ==
    LET tr == Train(c, t)
        p == [al |-> tr.al, ah |-> tr.ah, active |-> active, speed |-> speed, f1 |-> f[1], f2 |-> f[2], f3 |-> f[3], f4 |-> f[4]]
    IN CmdRes(DriveEffect(c, ts, p), <<Msg(ts.addr[to], MSG_CS_DRIVE, <<tr.al, tr.ah, DccFormat(tr.steps), active, speed, f[1], f[2], f[3], f[4]>>)>>, 0)

TrainCmdOk(c, ts, t, to) == t \in TrainIds(c) /\ to \in BoardIds(c) /\ Connected(ts, to) /\ IsTrackOutput(c, to)

SetTrainSpeed(c, ts, t, speed, to) ==
    IF speed < -126 \/ speed > 126 \/ ~TrainCmdOk(c, ts, t, to) THEN Fail(ts)
    ELSE LET mag == IF speed < 0 THEN 0 - speed ELSE speed
             fwd == IF speed > 0 THEN 1 ELSE IF speed < 0 THEN 0 ELSE ts.trn[t].fwd
         IN DriveMsg(c, ts, t, to, 1, LibToDcc(mag, fwd), <<0, 0, 0, 0>>)

SetCalibratedSpeed(c, ts, t, speed, to) ==
    IF speed < -9 \/ speed > 9 \/ t \notin TrainIds(c) THEN Fail(ts)
    ELSE IF Train(c, t).cal = <<>> THEN Fail(ts)
    ELSE SetTrainSpeed(c, ts, t, IF speed = 0 THEN 0 ELSE IF speed > 0 THEN Train(c, t).cal[speed] ELSE 0 - Train(c, t).cal[0 - speed], to)

EmergencyStop(c, ts, t, to) == IF ~TrainCmdOk(c, ts, t, to) THEN Fail(ts) ELSE DriveMsg(c, ts, t, to, 1, 129, <<0, 0, 0, 0>>)

(* function bits of one group as currently tracked, with bit `bit` replaced by `state` *)
GroupBits(c, ts, t, g, bit, state) ==
    LET tr == Train(c, t)
        cur(i) == LET k == First(tr.per, LAMBDA x : x.bit = i) IN IF i = bit THEN state ELSE IF k = 0 THEN 0 ELSE ts.trn[t].per[tr.per[k].id]
        byte(j) == LET S == {i \in (8 * j)..(8 * j + 7) : GroupOf(i) = g} IN
                   IF S = {} THEN 0 ELSE LET RECURSIVE sum(_) sum(T) == IF T = {} THEN 0 ELSE LET x == CHOOSE y \in T : TRUE IN cur(x) * 2^(x % 8) + sum(T \ {x}) IN sum(S)
    IN <<byte(0), byte(1), byte(2), byte(3)>>

SetTrainPeripheral(c, ts, t, pid, state, to) ==
    IF ~TrainCmdOk(c, ts, t, to) THEN Fail(ts) ELSE
    LET tr == Train(c, t)  k == First(tr.per, LAMBDA x : x.id = pid) IN
    IF k = 0 \/ state > 1 THEN Fail(ts)
    ELSE LET bit == tr.per[k].bit  g == GroupOf(bit) IN
         IF g = 0 THEN Fail(ts)          \* bits 5..7 have no function group in MSG_CS_DRIVE
         ELSE DriveMsg(c, ts, t, to, 2^g, 0, GroupBits(c, ts, t, g, bit, state))

SetBooster(c, ts, b, on) ==
    IF b \notin BoardIds(c) \/ ~Connected(ts, b) \/ ~IsBooster(c, b) THEN Fail(ts)
    ELSE CmdRes(ts, <<Msg(ts.addr[b], IF on = 1 THEN MSG_BOOST_ON ELSE MSG_BOOST_OFF, <<1>>)>>, 0)

TrkCsStates == {0, 1, 2, 3, 4, 8, 9, 13, 255}
SetTrackOutput(c, ts, b, st) ==
    IF b \notin BoardIds(c) \/ ~Connected(ts, b) \/ ~IsTrackOutput(c, b) \/ st \notin TrkCsStates THEN Fail(ts)
    ELSE CmdRes(ts, <<Msg(ts.addr[b], MSG_CS_SET_STATE, <<st>>)>>, 0)

(* all connected track outputs in board-file order *)
SetTrackOutputAll(c, ts, st) ==
    LET idx == SelectSeq([i \in DOMAIN c.boards |-> c.boards[i].id], LAMBDA b : Connected(ts, b) /\ IsTrackOutput(c, b)) IN
    CmdRes(ts, IF st \in TrkCsStates THEN [i \in DOMAIN idx |-> Msg(ts.addr[idx[i]], MSG_CS_SET_STATE, <<st>>)] ELSE <<>>, 0)

RequestReverser(c, ts, r, b) ==
    IF b \notin BoardIds(c) \/ ~Connected(ts, b) \/ r \notin Ids(c, "rev") THEN Fail(ts)
    ELSE LET cv == Ent(c, "rev", r).cv IN
         CmdRes([ts EXCEPT !.rev[r].val = 2], <<Msg(ts.addr[b], MSG_VENDOR_GET, <<Len(cv)>> \o cv)>>, 0)

PingBoard(c, ts, b, v) == IF b \notin BoardIds(c) \/ ~Connected(ts, b) THEN Fail(ts) ELSE CmdRes(ts, <<Msg(ts.addr[b], MSG_SYS_PING, <<v>>)>>, 0)


IdentifyBoard(c, ts, b, v) == IF b \notin BoardIds(c) \/ ~Connected(ts, b) \/ v > 1 THEN Fail(ts) ELSE CmdRes(ts, <<Msg(ts.addr[b], MSG_SYS_IDENTIFY, <<v>>)>>, 0)
NoDataCmd(c, ts, b, ty) == IF b \notin BoardIds(c) \/ ~Connected(ts, b) THEN Fail(ts) ELSE CmdRes(ts, <<Msg(ts.addr[b], ty, <<>>)>>, 0)

(* dispatch by public function name; k = [fn, s: Seq(STRING) (the id arguments, "" for NULL), i: Int (the numeric argument)] *)
Cmd(c, ts, k) ==
    IF \E j \in DOMAIN k.s : k.s[j] = "" THEN Fail(ts) ELSE
    CASE k.fn = "bidib_switch_point" -> SetAccessory(c, ts, "pb", "pd", k.s[1], k.s[2])
      [] k.fn = "bidib_set_signal" -> SetAccessory(c, ts, "sb", "sd", k.s[1], k.s[2])
      [] k.fn = "bidib_set_peripheral" -> SetPeripheral(c, ts, k.s[1], k.s[2])
      [] k.fn = "bidib_set_train_speed" -> SetTrainSpeed(c, ts, k.s[1], k.i, k.s[2])
      [] k.fn = "bidib_set_calibrated_train_speed" -> SetCalibratedSpeed(c, ts, k.s[1], k.i, k.s[2])
      [] k.fn = "bidib_emergency_stop_train" -> EmergencyStop(c, ts, k.s[1], k.s[2])
      [] k.fn = "bidib_set_train_peripheral" -> SetTrainPeripheral(c, ts, k.s[1], k.s[2], k.i, k.s[3])
      [] k.fn = "bidib_set_booster_power_state" -> SetBooster(c, ts, k.s[1], k.i)
      [] k.fn = "bidib_set_track_output_state" -> SetTrackOutput(c, ts, k.s[1], k.i)
      [] k.fn = "bidib_set_track_output_state_all" -> SetTrackOutputAll(c, ts, k.i)
      [] k.fn = "bidib_request_reverser_state" -> RequestReverser(c, ts, k.s[1], k.s[2])
      [] k.fn = "bidib_ping" -> PingBoard(c, ts, k.s[1], k.i)
      [] k.fn = "bidib_identify" -> IdentifyBoard(c, ts, k.s[1], k.i)
      [] k.fn = "bidib_get_protocol_version" -> NoDataCmd(c, ts, k.s[1], MSG_SYS_GET_P_VERSION)
      [] k.fn = "bidib_get_software_version" -> NoDataCmd(c, ts, k.s[1], MSG_SYS_GET_SW_VERSION)

(* ----------------------------------------------------------------- startup *)
(* the commands the library issues for the configured initial values, in its order (C20) *)
InitialCmds(c) ==
    LET secs == c.track
        acc(fn, ka, kb) == LET RECURSIVE f(_) f(i) == IF i > Len(secs) THEN <<>> ELSE
                               LET one(k) == [j \in DOMAIN SelectSeq(secs[i][k], LAMBDA x : x.initial # "") |->
                                                [fn |-> fn, s |-> <<SelectSeq(secs[i][k], LAMBDA x : x.initial # "")[j].id,
                                                                     SelectSeq(secs[i][k], LAMBDA x : x.initial # "")[j].initial>>, i |-> 0]]
                               IN one(ka) \o (IF kb = "" THEN <<>> ELSE one(kb)) \o f(i + 1)
                           IN f(1)
        tos == SelectSeq([i \in DOMAIN c.boards |-> c.boards[i].id], LAMBDA b : IsTrackOutput(c, b))
        trn == LET RECURSIVE g(_, _) g(i, j) ==
                   IF i > Len(c.trains) THEN <<>>
                   ELSE IF j > Len(c.trains[i].per) THEN g(i + 1, 1)
                   ELSE IF c.trains[i].per[j].initial < 0 THEN g(i, j + 1)
                   ELSE LET RECURSIVE h(_) h(m) == IF m > Len(tos) THEN <<>> ELSE
                                <<[fn |-> "bidib_set_train_peripheral", s |-> <<c.trains[i].id, c.trains[i].per[j].id, tos[m]>>, i |-> c.trains[i].per[j].initial],
                                  [fn |-> "bidib_set_train_speed", s |-> <<c.trains[i].id, tos[m]>>, i |-> 0]>> \o h(m + 1)
                        IN h(1) \o g(i, j + 1)
               IN g(1, 1)
    IN acc("bidib_switch_point", "pb", "pd") \o acc("bidib_set_signal", "sb", "sd") \o acc("bidib_set_peripheral", "per", "") \o trn

RECURSIVE ApplyCmds(_, _, _, _)
ApplyCmds(c, ts, cmds, out) ==      \* returns [ts, out]: commands that fail contribute nothing
    IF cmds = <<>> THEN [ts |-> ts, out |-> out]
    ELSE LET r == Cmd(c, ts, Head(cmds)) IN ApplyCmds(c, r.ts, Tail(cmds), out \o r.out)

(* paths: [board id -> node address] for the boards present in the bus tree *)
Connect(c, paths) == [State0(c) EXCEPT !.conn = [b \in DOMAIN @ |-> IF b \in DOMAIN paths THEN 1 ELSE 0],
                                       !.addr = [b \in DOMAIN @ |-> IF b \in DOMAIN paths THEN paths[b] ELSE <<>>]]
StartState(c, paths) == ApplyCmds(c, Connect(c, paths), InitialCmds(c), <<>>)

(* --------------------------------------------------- node table at startup (C15) *)
(* tree: Seq([p: node address, uid]) - the nodes present on the bus.  A node is found by the enumeration iff the
   interface <<>> answers and every proper non-empty prefix of its address is an interface-class node of the tree. *)
NodeAt(tree, p) == LET S == {i \in DOMAIN tree : tree[i].p = p} IN IF S = {} THEN 0 ELSE MinOf(S)
Reachable(tree, p) == /\ NodeAt(tree, <<>>) # 0
                      /\ \A k \in 1..(Len(p) - 1) : LET i == NodeAt(tree, SubSeq(p, 1, k)) IN i # 0 /\ Bit(tree[i].uid[1], 7) = 1
PathsOf(c, tree) ==
    LET found(b) == {i \in DOMAIN tree : tree[i].uid = Uid(c, b) /\ Reachable(tree, tree[i].p)}
        B == {b \in BoardIds(c) : found(b) # {}}
    IN [b \in B |-> tree[MinOf(found(b))].p]

(* --------------------------------------------- start-up transcript (C20) *)
(* ms: the decoded downlink messages [addr, seq, ty, data] of one start (from the system reset on), in wire order. *)
IdxOf(ms, T(_)) == {i \in DOMAIN ms : T(ms[i])}
(* index sets of a transcript, computed once (TLC re-evaluates LET definitions inside quantifiers, so the trace
   specification stores this record in a variable before checking BootOk) *)
BootInfo(c, paths, ms, ini) ==
    [fs |-> IdxOf(ms, LAMBDA m : m.ty = MSG_FEATURE_SET),
     en |-> IdxOf(ms, LAMBDA m : m.ty = MSG_SYS_ENABLE),
     go |-> IdxOf(ms, LAMBDA m : m.ty = MSG_CS_SET_STATE /\ m.data = <<3>>),
     want |-> UNION {{<<paths[b], f.num, f.val>> : f \in RangeS(BoardRec(c, b).features)} : b \in DOMAIN paths},
     ini |-> {i \in DOMAIN ms : \E j \in DOMAIN ini : ini[j].n = ms[i].addr /\ ini[j].ty = ms[i].ty /\ ini[j].data = ms[i].data},
     tos |-> {paths[b] : b \in {x \in DOMAIN paths : IsTrackOutput(c, x)}},
     addrs |-> {paths[b] : b \in DOMAIN paths}]

(* bi = BootInfo(c, paths, ms, ini); ini = StartState(c, paths).out: what the initial values have to submit (C09 encoding) *)
BootOk(ms, ini, bi) ==
    /\ Cardinality(bi.en) = 1
    (* each configured feature to its own board, once, to nobody else, before the enable *)
    /\ \A i \in bi.fs : Len(ms[i].data) = 2 /\ <<ms[i].addr, ms[i].data[1], ms[i].data[2]>> \in bi.want /\ \A e \in bi.en : i < e
    /\ \A w \in bi.want : Cardinality({i \in bi.fs : <<ms[i].addr, ms[i].data[1], ms[i].data[2]>> = w}) = 1
    (* every connected track output is switched on after the enable, nobody else *)
    /\ \A i \in bi.go : ms[i].addr \in bi.tos /\ \A e \in bi.en : e < i
    /\ \A a \in bi.tos : Cardinality({i \in bi.go : ms[i].addr = a}) = 1
    (* every initial value exactly as often as configured, after the track outputs were switched on *)
    /\ \A j \in DOMAIN ini : Cardinality({i \in bi.ini : ms[i].addr = ini[j].n /\ ms[i].ty = ini[j].ty /\ ms[i].data = ini[j].data})
                             = Cardinality({k \in DOMAIN ini : ini[k] = ini[j]})
    /\ \A i \in bi.ini : \A g \in bi.go : g < i
    (* accessory / port / drive commands occur only as initial values (nothing else is commanded) *)
    /\ \A i \in DOMAIN ms : ms[i].ty \in {MSG_ACCESSORY_SET, MSG_LC_OUTPUT, MSG_CS_ACCESSORY} => i \in bi.ini
    /\ \A i \in DOMAIN ms : ms[i].ty = MSG_CS_DRIVE /\ ms[i].data[4] # 0 => i \in bi.ini
    (* nothing is commanded for a board that is not connected *)
    /\ \A i \in DOMAIN ms : ms[i].ty \in {MSG_FEATURE_SET, MSG_CS_SET_STATE, MSG_CS_DRIVE, MSG_ACCESSORY_SET, MSG_LC_OUTPUT, MSG_CS_ACCESSORY,
                                         MSG_BM_GET_RANGE, MSG_BM_ADDR_GET_RANGE} => ms[i].addr \in bi.addrs

(* ---------------------------------------------------------------- shutdown (C16) *)
(* what bidib_stop submits: soft stop to every connected track output, then "speed 0, all functions off" for every
   train on every connected track output, then track off - each group flushed before the next *)
StopCmds(c, ts) ==
    LET tos == SelectSeq([i \in DOMAIN c.boards |-> c.boards[i].id], LAMBDA b : Connected(ts, b) /\ IsTrackOutput(c, b))
        st(v) == [i \in DOMAIN tos |-> Msg(ts.addr[tos[i]], MSG_CS_SET_STATE, <<v>>)]
        drv == LET RECURSIVE f(_, _) f(i, j) ==
                   IF i > Len(c.trains) THEN <<>>
                   ELSE IF j > Len(tos) THEN f(i + 1, 1)
                   ELSE <<Msg(ts.addr[tos[j]], MSG_CS_DRIVE, <<c.trains[i].al, c.trains[i].ah, DccFormat(c.trains[i].steps), 0, 0, 0, 0, 0, 0>>)>> \o f(i, j + 1)
               IN f(1, 1)
    IN st(2) \o drv \o st(0)
StopPhase(m) == IF m.ty = MSG_CS_SET_STATE /\ m.data = <<2>> THEN 1 ELSE IF m.ty = MSG_CS_DRIVE THEN 2
                ELSE IF m.ty = MSG_CS_SET_STATE /\ m.data = <<0>> THEN 3 ELSE 0
(* on the wire the three groups do not overlap *)
StopPhasesOrdered(ms) == \A i, j \in DOMAIN ms : i < j /\ StopPhase(ms[i]) # 0 /\ StopPhase(ms[j]) # 0 => StopPhase(ms[i]) <= StopPhase(ms[j])
(* the tracked state after the "all off" drive commands (observable only through results taken before: none) *)

(* ------------------------------------------------- properties of a state *)
(* C08 *)
TrainAgreesWithSegments(c, ts) ==
    \A t \in DOMAIN ts.trn :
        /\ (ts.trn[t].on = 1) <=> (Position(c, ts, t) # {})
        /\ ts.trn[t].on = 1 => ts.trn[t].oris = UNION {OrisIn(ts.seg[s].addrs, Train(c, t)) : s \in Position(c, ts, t)}
FreeHasNoAddresses(ts) == TRUE   \* occupancy and address reports are independent messages; see FreeClears below
TypeOkTs(c, ts) ==
    /\ DOMAIN ts.seg = Ids(c, "seg") /\ DOMAIN ts.trn = TrainIds(c)
    /\ \A s \in DOMAIN ts.seg : ts.seg[s].occ \in {0, 1} /\ ts.seg[s].pk \in {0, 1} /\ ts.seg[s].pc \in 0..20224
    /\ \A t \in DOMAIN ts.trn : ts.trn[t].spd \in -126..126 /\ ts.trn[t].fwd \in {0, 1} /\ \A p \in DOMAIN ts.trn[t].per : ts.trn[t].per[p] \in {0, 1}
    /\ \A b \in DOMAIN ts.bst : ts.bst[b].pss \in {0, 1, 2}

(* ---------------------------------------------- comparison with observations *)
(* Fields the documentation declares meaningless under a flag are not compared. *)
NormPc(r) == IF r.pk = 0 THEN [r EXCEPT !.po = 0, !.pc = 0] ELSE IF r.po = 1 THEN [r EXCEPT !.pc = 0] ELSE r
NormSeg(r) == NormPc(r)
NormBst(r) == LET a == NormPc(r) IN [a EXCEPT !.v = IF a.vk = 0 THEN 0 ELSE @, !.t = IF a.tk = 0 THEN 0 ELSE @]
NormDec(r) == [r EXCEPT !.sq = IF r.sqk = 0 THEN 0 ELSE @, !.t = IF r.tk = 0 THEN 0 ELSE @, !.en = IF r.ek = 0 THEN 0 ELSE @,
                        !.c2 = IF r.c2k = 0 THEN 0 ELSE @, !.c3 = IF r.c3k = 0 THEN 0 ELSE @]

(* observed train record: per is a sequence of [id, st]; ori a number *)
TrainMatches(spec, obs) ==
    /\ obs.ori \in spec.oris
    /\ LET o == NormDec(obs)  s == NormDec(spec) IN
       /\ o.on = s.on /\ o.spd = s.spd /\ o.fwd = s.fwd /\ o.ack = s.ack /\ o.kmh = s.kmh
       /\ o.sqk = s.sqk /\ o.sq = s.sq /\ o.tk = s.tk /\ o.t = s.t /\ o.ek = s.ek /\ o.en = s.en
       /\ o.c2k = s.c2k /\ o.c2 = s.c2 /\ o.c3k = s.c3k /\ o.c3 = s.c3
    /\ Len(obs.per) = Cardinality(DOMAIN spec.per)
    /\ \A i \in DOMAIN obs.per : obs.per[i].id \in DOMAIN spec.per /\ obs.per[i].st = spec.per[obs.per[i].id]

(* obs tables are records keyed by id (the driver's lists converted by the check) *)
SnapMatches(c, ts, obs) ==
    /\ \A k \in {"pb", "sb", "pd", "sd", "per", "rev", "to"} : obs[k] = ts[k]
    /\ DOMAIN obs.seg = DOMAIN ts.seg /\ \A s \in DOMAIN ts.seg : NormSeg(obs.seg[s]) = NormSeg(ts.seg[s])
    /\ DOMAIN obs.bst = DOMAIN ts.bst /\ \A b \in DOMAIN ts.bst : NormBst(obs.bst[b]) = NormBst(ts.bst[b])
    /\ DOMAIN obs.trn = DOMAIN ts.trn /\ \A t \in DOMAIN ts.trn : TrainMatches(ts.trn[t], obs.trn[t])

PositionMatches(c, ts, t, o) ==
    LET P == Position(c, ts, t) IN
    /\ {o.segs[i] : i \in DOMAIN o.segs} = P /\ Len(o.segs) >= Cardinality(P)
    /\ P # {} => (IF o.left = 1 THEN 0 ELSE 1) \in ts.trn[t].oris

Matches(c, ts, obs) ==
    /\ SnapMatches(c, ts, obs)
    /\ DOMAIN obs.boards = DOMAIN ts.conn
    /\ \A b \in DOMAIN ts.conn : /\ obs.boards[b].conn = ts.conn[b]
                                 /\ ts.conn[b] = 1 => obs.boards[b].addr = ts.addr[b]
                                 /\ obs.boards[b].uid = Uid(c, b)
    (* derived train getters (C08): position, on-track flag, speed getters *)
    /\ \A t \in DOMAIN ts.trn :
          LET o == obs.tpos[t] IN
          /\ o.on = ts.trn[t].on
          /\ PositionMatches(c, ts, t, o)
          /\ o.ssk = ts.trn[t].on /\ (o.ssk = 1 => o.ss = ts.trn[t].spd /\ o.ssf = ts.trn[t].fwd)
          /\ o.skk = ts.trn[t].on /\ (o.skk = 1 => o.sk = ts.trn[t].kmh)
    /\ {obs.ontrack[i] : i \in DOMAIN obs.ontrack} = {t \in DOMAIN ts.trn : ts.trn[t].on = 1}

(* C17: a bundle = snapshot + every single-entity getter for every id, for an unknown id and for NULL, taken at one
   quiescent moment.  Single getters must agree with the snapshot's entity (SnapshotEqualsSingles), unknown / NULL
   queries must come back "not known" with null pointer members and zero counts (safe to free). *)
Plus(r, f) == [x \in DOMAIN r \cup DOMAIN f |-> IF x \in DOMAIN r THEN r[x] ELSE f[x]]
AccQuery(c, ts, kb, kd, id) == IF id \in Ids(c, kb) THEN Plus([known |-> 1, type |-> 0], ts[kb][id]) ELSE Plus([known |-> 1, type |-> 1], ts[kd][id])
BundleMatches(c, ts, b) ==
    /\ SnapMatches(c, ts, b.snap)
    /\ DOMAIN b.sg.point = Ids(c, "pb") \cup Ids(c, "pd") /\ \A i \in DOMAIN b.sg.point : b.sg.point[i] = AccQuery(c, ts, "pb", "pd", i)
    /\ DOMAIN b.sg.signal = Ids(c, "sb") \cup Ids(c, "sd") /\ \A i \in DOMAIN b.sg.signal : b.sg.signal[i] = AccQuery(c, ts, "sb", "sd", i)
    /\ DOMAIN b.sg.per = DOMAIN ts.per /\ \A i \in DOMAIN ts.per : b.sg.per[i] = Plus([known |-> 1], ts.per[i])
    /\ DOMAIN b.sg.seg = DOMAIN ts.seg /\ \A i \in DOMAIN ts.seg : NormSeg(b.sg.seg[i]) = Plus([known |-> 1], NormSeg(ts.seg[i]))
    /\ DOMAIN b.sg.rev = DOMAIN ts.rev /\ \A i \in DOMAIN ts.rev : b.sg.rev[i] = Plus([known |-> 1], ts.rev[i])
    /\ DOMAIN b.sg.trn = DOMAIN ts.trn /\ \A i \in DOMAIN ts.trn : b.sg.trn[i].known = 1 /\ TrainMatches(ts.trn[i], b.sg.trn[i])
    /\ DOMAIN b.sg.pos = DOMAIN ts.trn /\ \A i \in DOMAIN ts.trn : PositionMatches(c, ts, i, b.sg.pos[i])
    /\ DOMAIN b.sg.bst = DOMAIN ts.bst /\ \A i \in DOMAIN ts.bst : NormBst(b.sg.bst[i]) = Plus([known |-> 1], NormBst(ts.bst[i]))
    /\ DOMAIN b.sg.to = DOMAIN ts.to /\ \A i \in DOMAIN ts.to : b.sg.to[i] = [known |-> 1, cs |-> ts.to[i].cs]
    /\ \A u \in DOMAIN b.unk : b.unk[u] = [pt |-> 0, ptp |-> 1, sg |-> 0, sgp |-> 1, per |-> 0, perp |-> 1, seg |-> 0, segp |-> 1, segn |-> 0,
                                          rev |-> 0, revp |-> 1, trn |-> 0, trnp |-> 1, trnn |-> 0, pos |-> 0, posp |-> 1, bst |-> 0, to |-> 0]
    /\ {b.boards[i] : i \in DOMAIN b.boards} = BoardIds(c) /\ Len(b.boards) = Cardinality(BoardIds(c))
    /\ {b.trains[i] : i \in DOMAIN b.trains} = TrainIds(c) /\ Len(b.trains) = Cardinality(TrainIds(c))

(* one single-entity getter result against the state (C10: every result is a state that existed) *)
GetMatches(c, ts, k, id, res) ==
    CASE k = "point" -> IF id \in Ids(c, "pb") \cup Ids(c, "pd") THEN res = AccQuery(c, ts, "pb", "pd", id) ELSE res.known = 0
      [] k = "signal" -> IF id \in Ids(c, "sb") \cup Ids(c, "sd") THEN res = AccQuery(c, ts, "sb", "sd", id) ELSE res.known = 0
      [] k = "per" -> IF id \in DOMAIN ts.per THEN res = Plus([known |-> 1], ts.per[id]) ELSE res.known = 0
      [] k = "seg" -> IF id \in DOMAIN ts.seg THEN NormSeg(res) = Plus([known |-> 1], NormSeg(ts.seg[id])) ELSE res.known = 0
      [] k = "rev" -> IF id \in DOMAIN ts.rev THEN res = Plus([known |-> 1], ts.rev[id]) ELSE res.known = 0
      [] k = "trn" -> IF id \in DOMAIN ts.trn THEN res.known = 1 /\ TrainMatches(ts.trn[id], res) ELSE res.known = 0
      [] k = "bst" -> IF id \in DOMAIN ts.bst THEN NormBst(res) = Plus([known |-> 1], NormBst(ts.bst[id])) ELSE res.known = 0
      [] k = "to" -> IF id \in DOMAIN ts.to THEN res = [known |-> 1, cs |-> ts.to[id].cs] ELSE res.known = 0
      [] k = "pos" -> IF id \in DOMAIN ts.trn THEN PositionMatches(c, ts, id, res) ELSE res.segs = <<>>
      [] k = "conn" -> res.conn = (IF id \in DOMAIN ts.conn THEN ts.conn[id] ELSE 0)
=============================================================================
