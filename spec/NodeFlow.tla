------------------------------ MODULE NodeFlow ------------------------------
(***************************************************************************)
(* Per-node flow control of the downlink: sequence numbering, response     *)
(* budget (48 bytes, 2 s expiry), deferred-message queue, stall handling.  *)
(* One action per public event (sequential semantics); NodeFlowConc splits *)
(* Send into the lock regions of the C code.                               *)
(*                                                                         *)
(* The model is written at message level.  Where the properties determine  *)
(* the outcome (admit / hold, per-node order, seq stamping, what is freed  *)
(* by which answer) it is deterministic; it says nothing about packet      *)
(* boundaries or the order between different nodes.                        *)
(*                                                                         *)
(* Reading of C03 "whenever": the library has no timer, so budget and      *)
(* stall conditions are re-evaluated at *processing points* of a node:     *)
(* a send to it, an uplink message from it, a stall notice of it or of an  *)
(* ancestor.  Expiry is evaluated at every processing point.               *)
(*                                                                         *)
(* Q is the set of quirk names; with Q = {} the model is the property,     *)
(* with a quirk it reproduces a behaviour of the pinned C code that        *)
(* violates it (used to demonstrate and classify defects).                 *)
(***************************************************************************)
EXTENDS Naturals, Sequences, SequencesExt, FiniteSets, Tables

CONSTANT Q          \* subset of {"PinnedExpiry", "RootStallIgnored", "SendNoExpiry"}

VARIABLES
    nodes,          \* [addr -> node record], domain grows on demand; addr = sequence of 0..3 non-zero bytes
    now,            \* virtual time in seconds
    seqOn,          \* sequence numbering enabled
    ghost           \* [sub |-> per-node submitted ids, wired |-> per-node transmitted msgs, bad |-> set of violation tags]

nfvars == <<nodes, now, seqOn, ghost>>

NewNode == [sseq |-> 1, stall |-> FALSE, resp |-> <<>>, defer |-> <<>>, pend |-> <<>>]
(* resp   : outstanding requests, oldest first: [ty, t]
   defer  : held messages, oldest first: [seq, ty, data]
   pend   : messages handed to the transmit buffer and not yet observed on the wire (trace validation consumes it) *)

Node(ns, n) == IF n \in DOMAIN ns THEN ns[n] ELSE NewNode
Put(ns, n, nd) == [a \in DOMAIN ns \cup {n} |-> IF a = n THEN nd ELSE ns[a]]

FGet(f, n, d) == IF n \in DOMAIN f THEN f[n] ELSE d
FPut(f, n, x) == [a \in DOMAIN f \cup {n} |-> IF a = n THEN x ELSE f[a]]

IncSeq(s) == IF s = 255 THEN 1 ELSE s + 1

SumSizes(resp) == FoldLeft(LAMBDA acc, r : acc + RespSize(r.ty), 0, resp)
Used(nd) == SumSizes(nd.resp)

IsPfx(a, b) == Len(a) <= Len(b) /\ SubSeq(b, 1, Len(a)) = a

(* n itself or an ancestor is stalled *)
Blocked(ns, n) ==
    \E k \in (IF "RootStallIgnored" \in Q THEN 1 ELSE 0)..Len(n) :
        LET a == SubSeq(n, 1, k) IN a \in DOMAIN ns /\ ns[a].stall

Expired(r, t) == t - r.t >= ExpirySecs
ExpireAll(nd, t) == [nd EXCEPT !.resp = SelectSeq(@, LAMBDA r : ~Expired(r, t))]

(* hand held messages to the transmit buffer while there is room; returns the new node record *)
RECURSIVE Rel(_, _)
Rel(nd, t) ==
    IF nd.defer = <<>> THEN nd
    ELSE LET m == Head(nd.defer) IN
         IF Used(nd) + RespSize(m.ty) <= ResponseLimit
         THEN Rel([nd EXCEPT !.defer = Tail(@),
                             !.pend = Append(@, m),
                             !.resp = IF RespSize(m.ty) > 0 THEN Append(@, [ty |-> m.ty, t |-> t]) ELSE @], t)
         ELSE nd
Release(ns, n, nd) == IF Blocked(ns, n) THEN nd ELSE Rel(nd, now)

(* ---- the pinned code's response matching / expiry (src/transmission/bidib_transmission_node_states.c:211-255) ---- *)
(* returns [nd |-> node, hit |-> a matching answer was found (only then the code retries held messages)] *)
RECURSIVE PinnedLoop(_, _, _, _)
PinnedLoop(nd, aty, i, t) ==
    IF nd.resp = <<>> THEN [nd |-> nd, hit |-> FALSE]
    ELSE LET r == Head(nd.resp) IN
         IF i > RespInfo[r.ty + 1][1] THEN [nd |-> nd, hit |-> FALSE]
         ELSE IF RespInfo[r.ty + 1][i + 1] = aty
              THEN [nd |-> [nd EXCEPT !.resp = Tail(@)], hit |-> TRUE]
              ELSE IF Expired(r, t)
                   THEN PinnedLoop([nd EXCEPT !.resp = Tail(@)], aty, i + 1, t)   \* index not reset for the new head
                   ELSE PinnedLoop(nd, aty, i + 1, t)

(* ------------------------------------------------- state functions ns -> ns' *)

(* a send call for node n: stamp, queue behind earlier held messages, release what fits *)
SendNsG(ns, g, n, ty, data) ==
    LET nd0 == Node(ns, n)
        pinnedSend == "PinnedExpiry" \in Q \/ "SendNoExpiry" \in Q      \* a send neither evaluates the expiry nor retries held messages
        nd1 == IF pinnedSend THEN nd0 ELSE ExpireAll(nd0, now)
        sq  == IF seqOn THEN nd1.sseq ELSE 0
        m   == [seq |-> sq, ty |-> ty, data |-> data, id |-> FGet(g.sub, n, 0) + 1]
        nd2 == [nd1 EXCEPT !.sseq = IF seqOn THEN IncSeq(@) ELSE @]
        nd3 == IF pinnedSend
               THEN (* pinned: admitted only if nothing is held; otherwise queued, the queue is not retried *)
                    IF ~Blocked(ns, n) /\ nd2.defer = <<>> /\ Used(nd2) + RespSize(ty) <= ResponseLimit
                    THEN [nd2 EXCEPT !.pend = Append(@, m),
                                     !.resp = IF RespSize(ty) > 0 THEN Append(@, [ty |-> ty, t |-> now]) ELSE @]
                    ELSE [nd2 EXCEPT !.defer = Append(@, m)]
               ELSE Release(ns, n, [nd2 EXCEPT !.defer = Append(@, m)])
    IN Put(ns, n, nd3)
SendNs(ns, n, ty, data) == SendNsG(ns, ghost, n, ty, data)

(* node-table part of processing an uplink message of type aty from node n (every type, also MSG_STALL) *)
AfterAnswer(ns, n, aty) ==
    LET nd0 == Node(ns, n) IN
    IF "PinnedExpiry" \in Q
    THEN LET r == PinnedLoop(nd0, aty, 2, now) IN IF r.hit THEN Release(ns, n, r.nd) ELSE r.nd
    ELSE LET nd1 == ExpireAll(nd0, now)
             nd2 == IF nd1.resp # <<>> /\ aty \in RespAnswers(Head(nd1.resp).ty)
                    THEN [nd1 EXCEPT !.resp = Tail(@)] ELSE nd1
         IN Release(ns, n, nd2)

UplinkNs(ns, n, aty) ==
    LET nd == AfterAnswer(ns, n, aty) IN IF n \in DOMAIN ns \/ nd # NewNode THEN Put(ns, n, nd) ELSE ns

(* a stall notice from node n; v = 0 clears.  StallMid: after the flag change, before the retries *)
StallMid(ns, n, v) == LET nd1 == AfterAnswer(ns, n, MSG_STALL) IN Put(ns, n, [nd1 EXCEPT !.stall = (v # 0)])
StallNs(ns, n, v) ==
    LET ns1 == StallMid(ns, n, v) IN
    IF v # 0 THEN ns1
    ELSE [a \in DOMAIN ns1 |-> IF IsPfx(n, a) THEN Release(ns1, a, ns1[a]) ELSE ns1[a]]

ClearPend(ns) == [a \in DOMAIN ns |-> [ns[a] EXCEPT !.pend = <<>>]]

(* some held message was handed to the transmit buffer between the two states *)
ReleasedAny(old, new) == \E a \in DOMAIN old : a \in DOMAIN new /\ Len(new[a].defer) < Len(old[a].defer)
(* "held traffic resumes": the step that releases held messages also transmits them (the library flushes after a retry
   that handed something over) - what is still waiting afterwards can only be what was submitted after the release.
   rel = node table right after the release, sent = after the messages submitted later in the same step, fin = after
   the observed bytes were consumed *)
ReleaseTransmitted(old, rel, sent, fin) ==
    ReleasedAny(old, rel) => \A a \in DOMAIN rel : Len(fin[a].pend) <= Len(sent[a].pend) - Len(rel[a].pend)

(* ------------------------------------------------------------------ ghost *)
(* Ghost state is kept small (counters, not histories): sub[n] = number of messages submitted for n,
   wired[n] = number handed to the transmit buffer, last[n] = sequence number of the last one handed over.
   Violations of order / silence are latched in `bad` at the step where they happen. *)
NewPend(old, new) == SubSeq(new.pend, Len(old.pend) + 1, Len(new.pend))
TrulyBlocked(ns, n) == \E k \in 0..Len(n) : LET a == SubSeq(n, 1, k) IN a \in DOMAIN ns /\ ns[a].stall

SeqChainOk(prev, w) == \A i \in 1..Len(w) :
    LET p == IF i = 1 THEN prev ELSE w[i-1].seq IN p = 0 \/ w[i].seq = 0 \/ w[i].seq = IncSeq(p)

(* ns -> ns2 handed NewPend to the transmit buffer; flags = node table whose stall flags were in force then *)
GhostStep(g, ns, ns2, flags, touched, stouched) ==
    LET np(a) == IF a \in DOMAIN ns2 THEN NewPend(Node(ns, a), ns2[a]) ELSE <<>>
        D == DOMAIN ns2
    IN [g EXCEPT
          !.wired = [a \in DOMAIN @ \cup D |-> FGet(@, a, 0) + Len(np(a))],
          !.last  = [a \in DOMAIN @ \cup D |-> IF np(a) = <<>> THEN FGet(@, a, 0) ELSE np(a)[Len(np(a))].seq],
          !.bad = @ \cup (IF \E a \in D : np(a) # <<>> /\ TrulyBlocked(flags, a) THEN {"sent-into-stalled-subtree"} ELSE {})
                   \cup (IF \E a \in D : ~SeqChainOk(FGet(g.last, a, 0), np(a)) THEN {"seq-not-consecutive"} ELSE {})
                   \cup (IF \E a \in D : \E i \in 1..Len(np(a)) : np(a)[i].id # FGet(g.wired, a, 0) + i THEN {"order"} ELSE {}),
          !.touched = touched, !.stouched = stouched]

(* ---------------------------------------------------------------- actions *)

Init == /\ nodes = << >>
        /\ now = 0
        /\ seqOn = TRUE
        /\ ghost = [sub |-> << >>, wired |-> << >>, last |-> << >>, bad |-> {}, touched |-> {}, stouched |-> {}]

Send(n, ty, data) ==
    LET ns2 == SendNs(nodes, n, ty, data) IN
    /\ nodes' = ns2
    /\ ghost' = GhostStep([ghost EXCEPT !.sub = FPut(@, n, FGet(@, n, 0) + 1)], nodes, ns2, nodes, {n}, {})
    /\ UNCHANGED <<now, seqOn>>

Uplink(n, aty) ==
    /\ aty # MSG_STALL
    /\ LET ns2 == UplinkNs(nodes, n, aty) IN
       /\ nodes' = ns2
       /\ ghost' = GhostStep(ghost, nodes, ns2, nodes, {n}, {})
    /\ UNCHANGED <<now, seqOn>>

Stall(n, v) ==
    LET ns2 == StallNs(nodes, n, v) IN
    /\ nodes' = ns2
    /\ ghost' = GhostStep(ghost, nodes, ns2, IF v = 0 THEN StallMid(nodes, n, v) ELSE nodes,
                          {n}, IF v = 0 THEN {a \in DOMAIN ns2 : IsPfx(n, a)} ELSE {})
    /\ UNCHANGED <<now, seqOn>>

Tick(d) == /\ now' = now + d
           /\ ghost' = [ghost EXCEPT !.touched = {}, !.stouched = {}]
           /\ UNCHANGED <<nodes, seqOn>>

(* system reset: the node table is discarded, numbering restarts *)
ResetTable == /\ nodes' = << >>
              /\ ghost' = [sub |-> << >>, wired |-> << >>, last |-> << >>, bad |-> ghost.bad, touched |-> {}, stouched |-> {}]
              /\ UNCHANGED <<now, seqOn>>

SetSeqOn(b) == /\ seqOn' = b /\ UNCHANGED <<nodes, now, ghost>>

(* ------------------------------------------------------------- properties *)

TypeOk == /\ \A n \in DOMAIN nodes : /\ nodes[n].sseq \in 1..255
                                     /\ Len(n) <= 3
          /\ now \in Nat

(* C03 budget: what is on the wire and neither answered nor expired never exceeds the limit *)
Outstanding(nd) == SelectSeq(nd.resp, LAMBDA r : ~Expired(r, now))
Budget == \A n \in DOMAIN nodes : SumSizes(Outstanding(nodes[n])) <= ResponseLimit

(* C03 / C04: per node, transmitted ++ held = submitted, in submission order, exactly once *)
DeferFIFOOnce ==
    /\ "order" \notin ghost.bad
    /\ \A n \in DOMAIN ghost.sub :
          LET d == Node(nodes, n).defer IN
          /\ FGet(ghost.wired, n, 0) + Len(d) = ghost.sub[n]
          /\ \A i \in 1..Len(d) : d[i].id = FGet(ghost.wired, n, 0) + i

(* C03 never stranded.  Every state of the sequential model is a quiescent point; ghost.touched holds the
   nodes for which the last event was a processing point (send to it, uplink from it, stall change of it or
   of an ancestor).  The pure passage of time is not a processing point (the library has no timer). *)
Fits(nd) == nd.defer # <<>> /\ SumSizes(Outstanding(nd)) + RespSize(Head(nd.defer).ty) <= ResponseLimit
NotStranded == \A n \in ghost.touched : n \in DOMAIN nodes => ~(Fits(nodes[n]) /\ ~TrulyBlocked(nodes, n))
(* a stall notice of an ancestor re-evaluates the stall condition of the subtree, not the clock: nodes released
   by it are judged with the budget as last evaluated at their own processing point *)
FitsStored(nd) == nd.defer # <<>> /\ Used(nd) + RespSize(Head(nd.defer).ty) <= ResponseLimit
NotStrandedByStall == \A n \in ghost.stouched : n \in DOMAIN nodes => ~(FitsStored(nodes[n]) /\ ~TrulyBlocked(nodes, n))

(* C04 *)
StallSilence == "sent-into-stalled-subtree" \notin ghost.bad

(* C05 (sequential part): sequence numbers in transmission order are consecutive per node *)
SeqConsecutive == "seq-not-consecutive" \notin ghost.bad
=============================================================================
