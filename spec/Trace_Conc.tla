----------------------------- MODULE Trace_Conc -----------------------------
(***************************************************************************)
(* Validation of concurrent executions (baton scheduler, serialised): the  *)
(* literal C05 / C01 clauses on the total order of write-callback bytes.   *)
(*   creset                 new session                                    *)
(*   sub   t fn na args     thread t made this low-level call (the         *)
(*                          call returned; per thread in program order)    *)
(*   wire  w                bytes of one write-callback call, global order *)
(*   end   all              end of the execution; all = every submitted    *)
(*                          message must have been transmitted by now      *)
(* sub events are logged when the call returns, wire events when the bytes *)
(* leave, so a message may be seen on the wire before its sub event: the   *)
(* matching is done at the end.                                            *)
(***************************************************************************)
EXTENDS Bytes, LowLevel, Json, IOUtils, TLC

VARIABLES l, last, seen, subs, carry
(* last[n]  sequence number of the last message to n seen on the wire (0 none)
   seen     all messages seen on the wire, in order: [n, seq, ty, data]
   subs     submitted messages: [t, n, ty, data], in event order
   carry    bytes of a packet not yet closed (a flush may use several write calls) *)
tcvars == <<l, last, seen, subs, carry>>

Tr == ndJsonDeserialize(IOEnv.TRACE)
Ev == Tr[l]
IsEv(k) == l <= Len(Tr) /\ Tr[l].e = k /\ l' = l + 1
IncSeq(s) == IF s = 255 THEN 1 ELSE s + 1

TInit == l = 1 /\ last = << >> /\ seen = <<>> /\ subs = <<>> /\ carry = <<>>

TCReset == /\ IsEv("creset") /\ last' = << >> /\ seen' = <<>> /\ subs' = <<>> /\ carry' = <<>>

TSub == /\ IsEv("sub")
        /\ LET sp == LLSpec(Ev.fn, Ev.args) IN
           /\ sp.acc = "yes"
           /\ subs' = Append(subs, [t |-> Ev.t, n |-> IF LLBroadcast(Ev.fn) THEN <<>> ELSE AddrOf(Ev.na), ty |-> sp.ty, data |-> sp.data])
        /\ UNCHANGED <<last, seen, carry>>

(* longest prefix of s that ends with a closing delimiter of a complete packet sequence *)
LastMagic(s) == IF \E i \in 1..Len(s) : s[i] = MAGIC THEN CHOOSE i \in 1..Len(s) : s[i] = MAGIC /\ \A j \in (i+1)..Len(s) : s[j] # MAGIC ELSE 0

RECURSIVE Chain(_, _, _)
(* walk the messages in wire order, checking per-node consecutiveness; returns the new `last` or FALSE *)
Chain(ms, i, la) ==
    IF i > Len(ms) THEN [ok |-> TRUE, la |-> la]
    ELSE LET m == ms[i]
             prev == IF m.addr \in DOMAIN la THEN la[m.addr] ELSE 0
         IN IF m.seq # 0 /\ prev # 0 /\ m.seq # IncSeq(prev) THEN [ok |-> FALSE, la |-> la]
            ELSE IF m.seq # 0 /\ prev = 0 /\ m.seq # 1 THEN [ok |-> FALSE, la |-> la]
            ELSE Chain(ms, i + 1, [a \in DOMAIN la \cup {m.addr} |-> IF a = m.addr THEN m.seq ELSE la[a]])

TWire == /\ IsEv("wire")
         /\ LET s == carry \o Ev.w
                k == LastMagic(s)
                (* a complete prefix ends in MAGIC and contains an even number of frame boundaries: take everything
                   up to the last MAGIC if what follows it is empty, else keep the open packet in carry *)
                done == IF k = Len(s) THEN s ELSE <<>>
                rest == IF k = Len(s) THEN <<>> ELSE s
                F == Flatten(WirePackets(done))
                ms == [i \in 1..Len(F) |-> ParseMsg(F[i])]
                la == Chain(ms, 1, last)
            IN /\ WireWellFormed(done)
               /\ la.ok
               /\ last' = la.la
               /\ seen' = seen \o [i \in 1..Len(ms) |-> [n |-> ms[i].addr, seq |-> ms[i].seq, ty |-> ms[i].ty, data |-> ms[i].data]]
               /\ carry' = rest
         /\ UNCHANGED subs

(* multiset / order checks at the end *)
SeenOf(n) == SelectSeq(seen, LAMBDA m : m.n = n)
SubsOfT(t, n) == SelectSeq(subs, LAMBDA m : m.t = t /\ m.n = n)
Strip(m) == [n |-> m.n, ty |-> m.ty, data |-> m.data]
Count(s, x) == Cardinality({i \in 1..Len(s) : Strip(s[i]) = x})
(* is a a subsequence of b (order preserved)? *)
RECURSIVE SubSeqOf(_, _, _, _)
SubSeqOf(a, i, b, j) == IF i > Len(a) THEN TRUE ELSE IF j > Len(b) THEN FALSE
                        ELSE IF Strip(a[i]) = Strip(b[j]) THEN SubSeqOf(a, i + 1, b, j + 1) ELSE SubSeqOf(a, i, b, j + 1)

TEnd == /\ IsEv("end")
        /\ Len(carry) = 0
        (* nothing on the wire that nobody submitted, nothing twice *)
        /\ \A i \in 1..Len(seen) : Count(seen, Strip(seen[i])) <= Count(subs, Strip(seen[i]))
        (* if the execution was driven to completion: everything submitted is on the wire *)
        /\ Ev.all => \A i \in 1..Len(subs) : Count(seen, Strip(subs[i])) = Count(subs, Strip(subs[i]))
        (* one thread's messages to one node keep their order *)
        /\ Ev.all => \A i \in 1..Len(subs) : SubSeqOf(SubsOfT(subs[i].t, subs[i].n), 1, SeenOf(subs[i].n), 1)
        /\ UNCHANGED <<last, seen, subs, carry>>

TNext == TCReset \/ TSub \/ TWire \/ TEnd
TSpec == TInit /\ [][TNext]_tcvars
TraceAccepted == TLCGet("stats").diameter - 1 = Len(Tr)
NotAccepted == l <= Len(Tr)
=============================================================================
