#!/usr/bin/env python3
"""maintenance helper: (re)register a check in MANIFEST.json and drop it from not_applicable.  usage: manifest_add.py <json-file-with-list-of-entries>"""
import json, sys
m = json.load(open("MANIFEST.json"))
new = json.load(open(sys.argv[1]))
ids = {e["property_id"] for e in new}
m["checks"] = [c for c in m["checks"] if c["property_id"] not in ids]
for e in new:
    e.setdefault("quick_cmd", "tools/vcheck %s --tier quick" % e["property_id"])
    e.setdefault("thorough_cmd", "tools/vcheck %s --tier thorough" % e["property_id"])
    e.setdefault("evidence_file", "evidence/%s.json" % e["property_id"])
    e.setdefault("replay_cmd_template", "tools/vcheck --replay {path}")
    e.setdefault("engine", "tla-trace-validation")
    m["checks"].append(e)
m["checks"].sort(key=lambda c: c["property_id"])
m["not_applicable"] = [n for n in m.get("not_applicable", []) if n["property_id"] not in ids]
m["engines"][0]["serves_properties"] = sorted(c["property_id"] for c in m["checks"])
json.dump(m, open("MANIFEST.json", "w"), indent=1)
