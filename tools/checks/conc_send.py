"""C05: per-node sequence numbers consecutive in wire order under any interleaving (and the concurrency clauses of C01).
TLC: NodeFlowConc (all interleavings at lock-acquisition granularity; the pinned three-region variant must fail,
the single-region variant must hold).  R: TLC-enumerated sender interleavings imposed on the real threads by the baton
scheduler.  V: PCT / random schedules with 2..16 threads, receiver traffic and auto-flush; the serialised wire is
validated by TLC (Trace_Conc)."""
import random, re, json, itertools
from vlib import build, drv, check, tlc, wire, gen_downlink as g

NODES = [[1, 0, 0], [2, 0, 0], [1, 1, 0], [0, 0, 0]]
SENDS = [("bidib_send_bm_mirror_occ", lambda r: [r.randrange(256)]), ("bidib_send_sys_ping", lambda r: [r.randrange(256)]),
         ("bidib_send_feature_get", lambda r: [r.randrange(256)]), ("bidib_send_lc_port_query_all", lambda r: [[r.randrange(256) for _ in range(6)]]),
         ("bidib_send_nodetab_getnext", lambda r: []), ("bidib_send_string_get", lambda r: [1, r.randrange(256)])]

class CScript(drv.Script):
    pass

def conc_script(rng, sid, K, per, policy, wrap=False, flush_ms=0, feeder=True, nodes=None):
    """K sender threads x `per` sends; optional feeder thread (answers / stall notices); completion rounds afterwards"""
    nodes = nodes or NODES[:3]
    s = CScript(sid)
    s.add("debug 1"); s.add("start ~ %d" % flush_ms, {"e": "creset"})
    if wrap:
        # bring node 1 close to the 255 -> 1 wrap with messages that need no answer
        for i in range(rng.choice([250, 252, 253])):
            line, ev = g.ll_line("bidib_send_bm_mirror_occ", [1, 0, 0], [i % 256]); ev = dict(ev, e="sub", t=0); s.add(line, ev)
        s.add("flush", {"e": "wcmd"})
    s.add("threads " + policy, {"e": "threads"})
    for k in range(1, K + 1):
        s.add("thread %d" % k)
        for _ in range(per):
            fn, ag = rng.choice(SENDS); na = rng.choice(nodes)
            line, ev = g.ll_line(fn, na, ag(rng)); ev = dict(ev, e="sub", t=k); s.add(line, ev)
            # senders flush, too: two flushes (and their write callbacks) may overlap in any way the locks allow
            if rng.random() < 0.3: s.add("flush", {"e": "wcmd", "in": True})
    if feeder:
        s.add("thread %d" % (K + 1))
        for _ in range(per):
            a = g.addr_of(rng.choice(nodes)); kind = rng.random()
            if kind < 0.25: line, _ = g.up_line(a, 0x8e, [rng.choice([0, 1])])
            else: line, _ = g.up_line(a, rng.choice([0x82, 0x90, 0x89, 0x95, 0xa0]), [1, 2])
            s.add(line, {"e": "wcmd", "in": True})
    s.add("endthreads")
    # drive to completion: clear stalls, expire budgets, touch every node, flush
    for a in [[], [1], [2], [1, 1]]:
        line, _ = g.up_line(a, 0x8e, [0]); s.add(line, {"e": "wcmd"})
    # every round lets all outstanding requests expire and hands over at least one held message per node: as many rounds as
    # messages were submitted always suffice (with 8 fixed rounds a 16-thread session could end with messages still held -
    # refused at the end event although the library was right)
    for _ in range(max(8, K * per + 2)):
        s.add("tick 2", {"e": "wcmd"})
        for a in [[], [1], [2], [1, 1]]:
            line, _ = g.up_line(a, 0xa0, [0]); s.add(line, {"e": "wcmd"})
        s.add("flush", {"e": "wcmd"})
    s.add("note end", {"e": "end", "all": True})
    s.add("stop")
    return s

def release_race_script(sid, variant, il):
    s = CScript(sid); node = [1, 0, 0]
    s.add("debug 1"); s.add("start ~ 0", {"e": "creset"})
    def send(fn, args, t):
        line, ev = g.ll_line(fn, node, args); s.add(line, dict(ev, e="sub", t=t))
    if variant == "stall":
        line, _ = g.up_line([1], 0x8e, [1]); s.add(line, {"e": "wcmd"})
        send("bidib_send_sys_get_magic", [], 0); send("bidib_send_sys_ping", [7], 0)               # both held
        release, _ = g.up_line([1], 0x8e, [0])
    else:
        for _ in range(8): send("bidib_send_sys_get_magic", [], 0)                                   # 8 x 6 bytes: budget used up
        send("bidib_send_sys_ping", [7], 0)                                                          # held
        s.add("flush", {"e": "wcmd"})
        release, _ = g.up_line([1], 0x81, [0xFE, 0xAF])                                              # the answer to the oldest request
    s.add("threads sched 1," + ",".join(map(str, il)), {"e": "threads"})
    s.add("thread 1"); s.add(release, {"e": "wcmd", "in": True})
    s.add("thread 2"); send("bidib_send_sys_ping", [9], 2)
    s.add("endthreads")
    for _ in range(4):
        s.add("tick 2", {"e": "wcmd"})
        line, _ = g.up_line([1], 0xa0, [0]); s.add(line, {"e": "wcmd"})
        s.add("flush", {"e": "wcmd"})
    s.add("note end", {"e": "end", "all": True})
    s.add("stop")
    return s

def trace_of(s, rr):
    """events for Trace_Conc in global order (gs stamps)"""
    evs = []      # (gs, event)
    order = 0
    for i, ev in enumerate(s.events):
        if ev is None: continue
        outs = rr.out.get(i)
        if not outs: return None
        o = outs[0]
        gs = o.get("gs", 0)
        if ev["e"] == "creset": evs.append((-1, 0, {"e": "creset"}))
        elif ev["e"] == "sub":
            evs.append((gs, 1, {"e": "sub", "t": ev["t"], "fn": ev["fn"], "na": ev["na"], "args": ev["args"]}))
            if ev["t"] == 0:     # inside a threads block the write events of the scheduler log are authoritative
                for ch in o.get("wire", []): evs.append((gs, 0, {"e": "wire", "w": wire.unhex(ch)}))
        elif ev["e"] == "wcmd":
            if not ev.get("in"):
                for ch in o.get("wire", []): evs.append((gs, 0, {"e": "wire", "w": wire.unhex(ch)}))
        elif ev["e"] == "threads":
            for e in o.get("ev", []):
                if e[2] == "W": evs.append((e[0], 0, {"e": "wire", "w": wire.unhex(e[3])}))
            if o.get("deadlock"): evs.append((10**12, 0, {"e": "deadlock"}))
        elif ev["e"] == "end":
            evs.append((10**13, 0, {"e": "end", "all": ev["all"]}))
    evs.sort(key=lambda x: (x[0], x[1]))
    return [e for _, _, e in evs]

def interleavings(counts):
    """all sequences over thread labels with the given multiplicities"""
    items = []
    for t, c in counts.items(): items += [t] * c
    return sorted(set(itertools.permutations(items)))

def run(pid, tier):
    ctx = check.Ctx(pid, tier); thorough = tier == "thorough"
    rng = random.Random(ctx.seed * 104729 + 5)
    try: exe = build.build("asan")
    except build.BuildError as ex:
        ctx.infra_fail("build failed: %s" % ex); return ctx.finish()
    # ---- 1. TLC: all interleavings of the model
    cfg_s = open(check.tlc.SPEC + "/NodeFlowConc_single.cfg").read()
    if thorough: cfg_s = cfg_s.replace("MaxAnswers = 2", "MaxAnswers = 3").replace("Plan <- P3", "Plan <- P3big")
    r = tlc.run("NodeFlowConcMC.tla", "_s.cfg", workers=16, timeout=2400, extra_files={"_s.cfg": cfg_s}, xmx="16g")
    ctx.add_tlc("NodeFlowConc single-region (code after the fix)", r); tlc.cleanup(r)
    if r.violation or r.error: ctx.infra_fail("NodeFlowConc(single) %s %s" % (r.violation, (r.error or "")[:500]))
    r = tlc.run("NodeFlowConcMC.tla", "NodeFlowConc_split.cfg", workers=8, timeout=300)
    ctx.add_tlc("NodeFlowConc split (three regions, pinned code): must violate SeqConsecutive", r); tlc.cleanup(r)
    if r.violation != "SeqConsecutive": ctx.infra_fail("split variant did not produce the expected counterexample: %s" % r.violation)
    # ---- 2. scripts
    scripts = []
    # R: every interleaving of the lock acquisitions of 2 threads x 2 sends / 3 threads x 1 send to the same node
    # (after the fix each send acquires node table then send buffer: 2 decisions per send)
    base = random.Random(7)
    n = 0
    for counts in ({1: 4, 2: 4}, {1: 2, 2: 2, 3: 2}):
        for il in interleavings(counts):
            if not thorough and n % 3 != ctx.seed % 3: n += 1; continue
            s = conc_script(random.Random(n), "il%d" % n, len(counts), 2 if len(counts) == 2 else 1, "sched " + ",".join(map(str, il)),
                            feeder=False, nodes=[[1, 0, 0]], wrap=(n % 7 == 0))
            scripts.append(s); n += 1
    # R2: the receiver releases held messages (end of a stall / an answer that frees the budget) while another thread
    # sends to the same node: every interleaving of the receiver's decision points (label 100) with the sender's
    n2 = 0
    for variant in ("stall", "budget"):
        for il in interleavings({100: 8, 2: 3}):
            n2 += 1
            if not thorough and n2 % 2 != ctx.seed % 2: continue
            scripts.append(release_race_script("rr%d" % n2, variant, il))
    ctx.cov["explicit_interleavings"] = len(scripts)
    nv = 150 if thorough else 24
    for i in range(nv):
        K = rng.choice([2, 3, 4, 8, 16]) if thorough else rng.choice([2, 3, 4, 8])
        pol = rng.choice(["pct %d 3 %d" % (rng.randrange(10**6), 40 * K), "rnd %d" % rng.randrange(10**6), "pct %d 6 %d" % (rng.randrange(10**6), 60 * K)])
        scripts.append(conc_script(rng, "v%d" % i, K, rng.choice([3, 5, 8]), pol, wrap=rng.random() < 0.3,
                                   flush_ms=rng.choice([0, 0, 20]), feeder=True))
    res = drv.run(exe, scripts, timeout=60)
    items = []
    for s in scripts:
        rr = res.get(s.sid)
        if rr is None or rr.status != "ok":
            ctx.violation("concurrent script %s: process ended with %s (code %s)" % (s.sid, rr.status if rr else "missing", rr.code if rr else "?"),
                          {"kind": "crash", "script": s.text(), "stderr": rr.stderr[-4000:] if rr else ""}); continue
        ev = trace_of(s, rr)
        if ev is None:
            ctx.violation("concurrent script %s did not run to completion" % s.sid, {"kind": "crash", "script": s.text(), "stderr": rr.stderr[-3000:]}); continue
        if any(e["e"] == "deadlock" for e in ev):
            ctx.violation("deadlock while sending concurrently in %s" % s.sid, {"kind": "deadlock", "script": s.text(), "out": rr.out}); continue
        # keep the schedule that was actually taken, for replay
        for o in rr.out.values():
            if o[0].get("op") == "threads": s.decisions = o[0].get("dec"); ctx.cov["evaluations"] += o[0].get("decisions", 0); ctx.distinct(tuple(o[0].get("dec", [])[:60]))
        items.append((s, ev))
    rej = check.validate_scripts(ctx, "Trace_Conc.tla", "Trace_Conc.cfg", items, timeout=900, first_event="creset")
    for s, ev, k, r in rej:
        ctx.violation("concurrent execution %s violates C05/C01 on the wire: event %d %s refused" % (s.sid, k, json.dumps(ev[k])[:300] if k < len(ev) else "(end)"),
                      {"kind": "trace", "module": "Trace_Conc.tla", "cfg": "Trace_Conc.cfg", "script": s.text(), "decisions": getattr(s, "decisions", None),
                       "events": ev, "refused_at": k})
    for s, ev in items[:2]: ctx.sample({"script": s.sid, "schedule_taken": getattr(s, "decisions", [])[:40], "events": ev[:8]})
    ctx.cov["rule"] = "cases = scheduling decisions taken on the real threads; distinct = distinct decision sequences (first 60 decisions)"
    ctx.assumptions += ["context switches only at synchronisation points (lock acquisition, usleep, thread start/end); preemption inside a region is not explored",
                        "debug mode, virtual time"]
    return ctx.finish()
