---------------------------- MODULE Trace_Track ----------------------------
(***************************************************************************)
(* Trace validation of the state / command / dispatch layer in normal mode *)
(* (C06 C07 C08 C09 C15 C17 C19): executions of the real library started   *)
(* against the bus simulator are checked event by event against Track      *)
(* (tracked state, submitted messages, destination queue) composed with    *)
(* NodeFlow (admission, numbering, stall) and Bytes (framing).             *)
(*                                                                         *)
(* Events (ndjson, env TRACE):                                             *)
(*   start cfg paths seqs st     session started: configuration, bus tree (board -> address), last sequence *)
(*                               number seen per node during startup, projection of all getters             *)
(*   up    n ty d sv w qm qe qi st   uplink message from node n; queues drained right after it              *)
(*   hl    fn s i ret w st       high-level command                                                         *)
(*   tick  d w                   virtual time                                                               *)
(*   flush w st                                                                                             *)
(*   obs   st                    projection only                                                            *)
(* st is optional on every event ("nost": 1 when absent).                  *)
(***************************************************************************)
EXTENDS NodeFlow, Track, Dispatch, LowLevel, Config, Bytes, Json, IOUtils, TLC

VARIABLES l, cap, cfg, ts, uq, held, bootout, bootms, bootinfo
ttvars == <<nodes, now, seqOn, ghost, l, cap, cfg, ts, uq, held, bootout, bootms, bootinfo>>

Tr == ndJsonDeserialize(IOEnv.TRACE)
Ev == Tr[l]
IsEv(k) == l <= Len(Tr) /\ Tr[l].e = k /\ l' = l + 1

Decode(bytes) ==
    LET wf == WireWellFormed(bytes)
        pk == IF wf THEN WirePackets(bytes) ELSE <<>>
        F  == Flatten(pk)
    IN [wf |-> wf, pk |-> pk, ms |-> [i \in 1..Len(F) |-> ParseMsg(F[i])]]
ForNode(ms, a) == SelectSeq(ms, LAMBDA m : m.addr = a)
Proj(p) == [i \in 1..Len(p) |-> [seq |-> p[i].seq, ty |-> p[i].ty, data |-> p[i].data]]
PacketLen(pk) == FoldLeft(LAMBDA acc, m : acc + Len(m), 0, pk)
(* "the packet capacity in force when it was filled": every message handed to the packet buffer is stamped with the
   capacity in force at that moment (cap changes with MSG_PKT_CAPACITY notices while bytes may still be waiting);
   a message that is not the first of its packet must fit below the capacity it was stamped with *)
Stamp(ns) == [a \in DOMAIN ns |-> [ns[a] EXCEPT !.pend =
                 [i \in DOMAIN @ |-> IF "cap" \in DOMAIN @[i] THEN @[i]
                                     ELSE [seq |-> @[i].seq, ty |-> @[i].ty, data |-> @[i].data, cap |-> cap]]]]
PrefixLen(pk, m) == FoldLeft(LAMBDA acc, x : acc + Len(x), 0, SubSeq(pk, 1, m))
StampAt(s, d, i) == LET a == d.ms[i].addr IN s[a].pend[Cardinality({j \in 1..i : d.ms[j].addr = a})].cap
CapOk(s, d) == \A k \in 1..Len(d.pk) : Len(d.pk[k]) > 1 =>
                  LET off == FoldLeft(LAMBDA acc, x : acc + Len(x), 0, SubSeq(d.pk, 1, k - 1)) IN
                  \A m \in 2..Len(d.pk[k]) : PrefixLen(d.pk[k], m) <= StampAt(s, d, off + m)

CanConsume(ns, d) ==
    LET s == Stamp(ns) IN
    /\ d.wf
    /\ \A i \in 1..Len(d.ms) : d.ms[i].addr \in DOMAIN ns /\ d.ms[i].ty < 128
    /\ \A a \in DOMAIN ns : LET w == Proj(ForNode(d.ms, a)) IN
                              /\ Len(w) <= Len(ns[a].pend)
                              /\ w = SubSeq(Proj(ns[a].pend), 1, Len(w))
    /\ CapOk(s, d)
Consumed(ns, d) == LET s == Stamp(ns) IN
                   [a \in DOMAIN s |-> [s[a] EXCEPT !.pend = SubSeq(@, Len(ForNode(d.ms, a)) + 1, Len(@))]]
AllOut(ns) == \A a \in DOMAIN ns : ns[a].pend = <<>>

(* submit a sequence of messages [n, ty, data] one after the other; returns [ns, g] *)
RECURSIVE SendAllG(_, _, _)
SendAllG(ns, g, out) ==
    IF out = <<>> THEN [ns |-> ns, g |-> g]
    ELSE LET m == Head(out)
             ns2 == SendNsG(ns, g, m.n, m.ty, m.data)
             g2 == GhostStep([g EXCEPT !.sub = FPut(@, m.n, FGet(@, m.n, 0) + 1)], ns, ns2, ns, {m.n}, {})
         IN SendAllG(ns2, g2, Tail(out))

(* the part of a start transcript that follows the system reset *)
AfterReset(d) == LET S == {i \in DOMAIN d.ms : d.ms[i].ty = MSG_SYS_RESET} IN
                 IF ~d.wf \/ S = {} THEN <<>> ELSE SubSeq(d.ms, MinOf(S) + 1, Len(d.ms))

ConnOk(c, t2, obs) == /\ DOMAIN obs = DOMAIN t2.conn
                      /\ \A b \in DOMAIN obs : obs[b].conn = t2.conn[b] /\ (t2.conn[b] = 1 => obs[b].addr = t2.addr[b])

StOk(t2) == IF Ev.nost = 1 THEN TRUE ELSE Matches(cfg, t2, Ev.st)

TInit == Init /\ l = 1 /\ cap = 64 /\ cfg = [boards |-> <<>>, track |-> <<>>, trains |-> <<>>] /\ ts = State0([boards |-> <<>>, track |-> <<>>, trains |-> <<>>]) /\ uq = QEmpty /\ held = <<>> /\ bootout = <<>> /\ bootms = <<>> /\ bootinfo = <<>>

Ghost0 == [sub |-> << >>, wired |-> << >>, last |-> << >>, bad |-> ghost.bad, touched |-> {}, stouched |-> {}]

(* tree = the nodes the bus simulator plays; boot = 1: ms holds the decoded downlink transcript of the whole start
   (automatic replies on) and the C20 order constraints are checked, state is not compared; boot = 0: start-up
   traffic was drained, automatic replies are off and the projection after start is compared *)
TStart == /\ IsEv("start")
          /\ cfg' = Ev.cfg
          /\ LET paths == PathsOf(Ev.cfg, Ev.tree)
                 r == StartState(Ev.cfg, paths)
             IN /\ ts' = r.ts
                /\ IF Ev.nost = 1 THEN TRUE ELSE Matches(Ev.cfg, r.ts, Ev.st)
                /\ bootout' = r.out
          /\ bootms' = <<>> /\ bootinfo' = <<>>
          /\ nodes' = [a \in {Ev.seqs[j].n : j \in DOMAIN Ev.seqs} |->
                          [NewNode EXCEPT !.sseq = IncSeq((CHOOSE x \in RangeS(Ev.seqs) : x.n = a).s)]]
          /\ now' = 0 /\ seqOn' = TRUE /\ cap' = Ev.cap
          /\ ghost' = Ghost0
          /\ uq' = QEmpty /\ held' = <<>>

(* the start transcript (boot sessions): C20 order / exactly-once constraints and C15 connectivity, evaluated on the
   state the start event established (ts = state after the initial values, bootout = the messages they submit) *)
(* "bootw" carries the bytes of the start; they are decoded once into the variable bootms *)
TBootWire == /\ IsEv("bootw")
             /\ LET d == Decode(Ev.w) IN d.wf /\ bootms' = AfterReset(d)
             /\ UNCHANGED <<nodes, now, seqOn, ghost, cap, cfg, ts, uq, held, bootout, bootinfo>>
TBootInfo == /\ IsEv("booti")
             /\ bootinfo' = BootInfo(cfg, [b \in {x \in DOMAIN ts.conn : ts.conn[x] = 1} |-> ts.addr[b]], bootms, bootout)
             /\ UNCHANGED <<nodes, now, seqOn, ghost, cap, cfg, ts, uq, held, bootout, bootms>>
TBoot == /\ IsEv("boot")
         /\ BootOk(bootms, bootout, bootinfo)
         /\ ConnOk(cfg, ts, Ev.conn)
         /\ UNCHANGED <<nodes, now, seqOn, ghost, cap, cfg, ts, uq, held, bootout, bootms, bootinfo>>

(* the message is appended to its queue; when the script drained the queues right after it (dr = 1) they must
   hold exactly what the specification says, oldest first, and are empty afterwards *)
QueueStep(q, raw) ==
    LET u1 == QPush(uq, q, raw) IN
    IF Ev.dr = 1 THEN /\ Ev.qm = u1.msg /\ Ev.qe = u1.err /\ Ev.qi = u1.int
                      /\ uq' = QEmpty
    ELSE uq' = u1

TUp == /\ IsEv("up")
       /\ Len(Ev.d) >= MinData(Ev.ty, Ev.d)
       /\ LET n == Ev.n
              r == Up(cfg, ts, n, Ev.ty, Ev.d)
              ns1 == IF Ev.ty = MSG_STALL THEN StallNs(nodes, n, Ev.sv) ELSE UplinkNs(nodes, n, Ev.ty)
              g1 == IF Ev.ty = MSG_STALL
                    THEN GhostStep(ghost, nodes, ns1, IF Ev.sv = 0 THEN StallMid(nodes, n, 0) ELSE nodes,
                                   {n}, IF Ev.sv = 0 THEN {a \in DOMAIN ns1 : IsPfx(n, a)} ELSE {})
                    ELSE GhostStep(ghost, nodes, ns1, nodes, {n}, {})
              sa == SendAllG(ns1, g1, r.out)
              d == Decode(Ev.w)
          IN /\ CanConsume(sa.ns, d)
             /\ nodes' = Consumed(sa.ns, d)
             /\ (r.flush /\ r.out # <<>>) => AllOut(nodes')
             /\ ReleaseTransmitted(nodes, ns1, sa.ns, nodes')
             /\ ghost' = sa.g
             /\ ts' = r.ts
             /\ QueueStep(r.q, MsgBytes(n, Ev.sq, Ev.ty, Ev.d))
             /\ cap' = IF Ev.ty = MSG_PKT_CAPACITY THEN (IF Ev.d[1] <= 64 THEN 64 ELSE Ev.d[1]) ELSE cap
             /\ StOk(r.ts)
       /\ UNCHANGED <<now, seqOn, cfg, held, bootout, bootms, bootinfo>>

THl == /\ IsEv("hl")
       /\ LET r == Cmd(cfg, ts, [fn |-> Ev.fn, s |-> Ev.s, i |-> Ev.i])
              sa == SendAllG(nodes, ghost, r.out)
              d == Decode(Ev.w)
          IN /\ Ev.ret = r.ret
             /\ CanConsume(sa.ns, d)
             /\ nodes' = Consumed(sa.ns, d)
             /\ ghost' = sa.g
             /\ ts' = r.ts
             /\ StOk(r.ts)
       /\ UNCHANGED <<now, seqOn, cap, cfg, uq, held, bootout, bootms, bootinfo>>

(* a low-level send in normal mode: argument check + encoding (LowLevel), admission / numbering (NodeFlow), no effect
   on the tracked state *)
TLl == /\ IsEv("ll")
       /\ LET sp == LLSpec(Ev.fn, Ev.args)
              n  == IF LLBroadcast(Ev.fn) THEN <<>> ELSE AddrOf(Ev.na)
              d  == Decode(Ev.w)
          IN /\ sp.acc # "unknown"
             /\ \/ /\ sp.acc \in {"yes", "any"}
                   /\ LenByte(n, sp.data) <= 127
                   /\ LET sa == SendAllG(nodes, ghost, <<[n |-> n, ty |-> sp.ty, data |-> sp.data]>>) IN
                      /\ CanConsume(sa.ns, d)
                      /\ nodes' = Consumed(sa.ns, d)
                      /\ ghost' = sa.g
                \/ /\ sp.acc \in {"no", "any"} \/ LenByte(n, sp.data) > 127
                   /\ CanConsume(nodes, d)
                   /\ nodes' = Consumed(nodes, d)
                   /\ UNCHANGED ghost
             /\ StOk(ts)
       /\ UNCHANGED <<now, seqOn, cap, cfg, ts, uq, held, bootout, bootms, bootinfo>>

TTick == /\ IsEv("tick")
         /\ now' = now + Ev.d
         /\ LET d == Decode(Ev.w) IN CanConsume(nodes, d) /\ nodes' = Consumed(nodes, d)
         /\ ghost' = [ghost EXCEPT !.touched = {}, !.stouched = {}]
         /\ UNCHANGED <<seqOn, cap, cfg, ts, uq, held, bootout, bootms, bootinfo>>

TFlush == /\ IsEv("flush")
          /\ LET d == Decode(Ev.w) IN CanConsume(nodes, d) /\ nodes' = Consumed(nodes, d)
          /\ AllOut(nodes')
          /\ StOk(ts)
          /\ UNCHANGED <<now, seqOn, ghost, cap, cfg, ts, uq, held, bootout, bootms, bootinfo>>

TObs == /\ IsEv("obs")
        /\ StOk(ts)
        /\ UNCHANGED <<nodes, now, seqOn, ghost, cap, cfg, ts, uq, held, bootout, bootms, bootinfo>>

(* the enumeration getters at any later moment: exactly the declared entities, the connected ones according to the
   allocation table as it is now (node-table notices change it), the trains that are on the track now *)
TLists == /\ IsEv("lists")
          /\ ListsOkT(cfg, ts.conn, {t \in DOMAIN ts.trn : ts.trn[t].on = 1}, Ev.lists)
          /\ LookupsOk(cfg, ts.conn, ts.addr, Ev.lists)
          /\ UNCHANGED <<nodes, now, seqOn, ghost, cap, cfg, ts, uq, held, bootout, bootms, bootinfo>>

(* drain: everything the three read functions return until NULL *)
TDrain == /\ IsEv("drain")
          /\ Ev.qm = uq.msg /\ Ev.qe = uq.err /\ Ev.qi = uq.int
          /\ uq' = QEmpty
          /\ UNCHANGED <<nodes, now, seqOn, ghost, cap, cfg, ts, held, bootout, bootms, bootinfo>>

(* one call of bidib_read_message / bidib_read_error_message: k = "msg" | "err", m = returned bytes, <<>> for NULL *)
TRead == /\ IsEv("rd")
         /\ LET r == QRead(uq, Ev.k) IN
            /\ Ev.m = (IF r.ok THEN r.res ELSE <<>>)
            /\ uq' = r.uq
         /\ UNCHANGED <<nodes, now, seqOn, ghost, cap, cfg, ts, held, bootout, bootms, bootinfo>>

(* C17: results taken now (hold) and looked at again later (held), also after the library stopped *)
THold == /\ IsEv("hold")
         /\ BundleMatches(cfg, ts, Ev.b)
         /\ held' = [k \in DOMAIN held \cup {Ev.k} |-> IF k = Ev.k THEN ts ELSE held[k]]
         /\ UNCHANGED <<nodes, now, seqOn, ghost, cap, cfg, ts, uq, bootout, bootms, bootinfo>>
THeld == /\ IsEv("held")
         /\ Ev.k \in DOMAIN held
         /\ BundleMatches(cfg, held[Ev.k], Ev.b)
         /\ UNCHANGED <<nodes, now, seqOn, ghost, cap, cfg, ts, uq, held, bootout, bootms, bootinfo>>
(* bidib_stop (C16): the shutdown commands go through the same admission as any command; what is admitted is on the
   wire when stop returns, group after group *)
TStop == /\ IsEv("stop")
         /\ LET out == StopCmds(cfg, ts)
                sa == SendAllG(nodes, ghost, out)
                d == Decode(Ev.w)
            IN /\ CanConsume(sa.ns, d)
               /\ AllOut(Consumed(sa.ns, d))
               /\ LET new == SelectSeq([i \in DOMAIN d.ms |-> [m |-> d.ms[i], k |-> Cardinality({j \in 1..(i - 1) : d.ms[j].addr = d.ms[i].addr})]],
                                        LAMBDA x : x.k >= Len(Node(nodes, x.m.addr).pend))      \* not what was still waiting for a flush before the stop
                  IN StopPhasesOrdered([i \in DOMAIN new |-> new[i].m])
               /\ nodes' = Consumed(sa.ns, d)
               /\ ghost' = sa.g
         /\ UNCHANGED <<now, seqOn, cap, cfg, ts, uq, held, bootout, bootms, bootinfo>>

TNext == TBootWire \/ TBootInfo \/ TBoot \/ THold \/ THeld \/ TStop \/ TStart \/ TUp \/ THl \/ TLl \/ TTick \/ TFlush \/ TObs \/ TLists \/ TDrain \/ TRead
TSpec == TInit /\ [][TNext]_ttvars

NotAccepted == l <= Len(Tr)
TraceAccepted == TLCGet("stats").diameter - 1 = Len(Tr)

(* C08 evaluated on every state of every validated execution *)
TrainsAgree == TrainAgreesWithSegments(cfg, ts)
=============================================================================
