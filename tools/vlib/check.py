"""Shared machinery of the checks: trace validation with TLC, violation / known-finding reporting, evidence."""
import json, os, sys, time, random, re, shutil, hashlib
from . import tlc, drv, build

VERIF = build.VERIF
# VERIF_OUT: evaluation runs against a scratch copy of the repository (tools/seed_matrix.py --scratch) write their
# evidence / replay files there instead of overwriting the committed evidence of /repo
EVID = os.path.join(os.environ.get("VERIF_OUT", VERIF), "evidence")
REPLAYS = os.path.join(os.environ.get("VERIF_OUT", VERIF), "replays")
KNOWN = os.path.join(VERIF, "known_findings.txt")
TMP = os.environ.get("VERIF_TMP", "/tmp")

def seed():
    try: return int(os.environ.get("VERIF_SEED", "1"))
    except ValueError: return 1

class Ctx:
    """one run of one property's check"""
    def __init__(self, pid, tier, level="model_checking"):
        self.pid = pid; self.tier = tier; self.level = level; self.seed = seed()
        self.t0 = time.time()
        self.violations = []     # (what, replay path)
        self.known = []          # text
        self.cov = {"states": 0, "transitions": 0, "traces_validated_against_impl": 0, "samples": [],
                    "evaluations": 0, "distinct_nontrivial": 0, "rule": "", "tlc_runs": [], "actions": {}}
        self.assumptions = []
        self.infra = []
        self.info = []
        self._distinct = set()
        os.makedirs(EVID, exist_ok=True); os.makedirs(REPLAYS, exist_ok=True)

    # ---- accounting
    def add_tlc(self, name, r, note=""):
        self.cov["states"] += r.distinct; self.cov["transitions"] += r.states
        self.cov["tlc_runs"].append({"model": name, "distinct_states": r.distinct, "states_generated": r.states, "depth": r.depth,
                                     "wall_s": round(r.wall, 1), "result": r.violation or ("error" if r.error else "ok"), "note": note})
        for a, (t, g) in r.coverage.items():
            self.cov["actions"][name + "." + a] = [t, g]
    def distinct(self, key):
        self._distinct.add(key)
    def sample(self, x, maxn=6):
        if len(self.cov["samples"]) < maxn: self.cov["samples"].append(x)

    # ---- verdicts
    def violation(self, what, replay_obj):
        h = hashlib.sha256(json.dumps(replay_obj, sort_keys=True, default=str).encode()).hexdigest()[:10]
        path = os.path.join(REPLAYS, "%s_%s.json" % (self.pid, h))
        replay_obj = dict(replay_obj); replay_obj["property"] = self.pid; replay_obj["what"] = what
        with open(path, "w") as f: json.dump(replay_obj, f, indent=1, default=str)
        self.violations.append((what, path))
        print("VIOLATION property=%s replay=%s" % (self.pid, path))
        print("  " + what[:600])
        sys.stdout.flush()
    def known_finding(self, key, text):
        if key not in [k for k, _ in self.known]:
            self.known.append((key, text))
            print("KNOWN-FINDING: property=%s %s" % (self.pid, text))
    def infra_fail(self, text):
        self.infra.append(text); print("INFRA: " + text[:2000]); sys.stdout.flush()
    def note(self, text):
        self.info.append(text); print("INFO " + text)

    def finish(self):
        c = self.cov
        c["distinct_nontrivial"] = len(self._distinct)
        if not c["rule"]: c["rule"] = "distinct (action, outcome-class) pairs exercised on the real library"
        ev = {"property_id": self.pid, "tier": self.tier, "seed": self.seed, "level": self.level, "coverage": c,
              "assumptions": self.assumptions, "wall_s": round(time.time() - self.t0, 1), "violations": len(self.violations),
              "known_findings": [t for _, t in self.known], "info": self.info[:50]}
        if self.infra: ev["infra_failures"] = self.infra
        with open(os.path.join(EVID, self.pid + ".json"), "w") as f: json.dump(ev, f, indent=1, default=str)
        if self.violations: return 1
        if self.infra: return 2
        return 0

def load_known(pid):
    """known_findings.txt lines: 'known: property=<id> key=<key> <text>' / 'fixed: property=<id> <commit> <text>'"""
    out = {}
    if os.path.exists(KNOWN):
        for ln in open(KNOWN):
            ln = ln.strip()
            m = re.match(r"known: property=(\S+) key=(\S+) (.*)", ln)
            if m and m.group(1) == pid: out[m.group(2)] = m.group(3)
    return out

def load_known_all():
    out = {}
    if os.path.exists(KNOWN):
        for ln in open(KNOWN):
            m = re.match(r"known: property=(\S+) key=(\S+) (.*)", ln.strip())
            if m: out.setdefault(m.group(1), {})[m.group(2)] = m.group(3)
    return out

# quirk name -> (constant it belongs to, invariants that state exactly what the quirk breaks)
QUIRKS = {"SendNoExpiry": ("Q", ["NotStranded"]), "MirrorPos3": ("TQ", [])}

def quirk_cfg(cfgname, pid, with_own=False):
    """text of spec/<cfgname> with the quirks of listed known findings switched on: those of other properties always
    (behaviour this property does not constrain), those of `pid` itself only if with_own.  Returns (text, own dict)."""
    allk = load_known_all()
    other = sorted(k for p, d in allk.items() if p != pid for k in d if k in QUIRKS)
    own = {k: v for k, v in allk.get(pid, {}).items() if k in QUIRKS}
    on = other + (sorted(own) if with_own else [])
    t = open(os.path.join(tlc.SPEC, cfgname)).read()
    for const in ("Q", "TQ"):
        qs = [k for k in on if QUIRKS[k][0] == const]
        t = re.sub(r"\b%s = \{\}" % const, "%s = {%s}" % (const, ", ".join('"%s"' % x for x in qs)), t)
    for k in on:
        for inv in QUIRKS[k][1]: t = re.sub(r"\b%s\b ?" % inv, "", t)
    return t, own, other

# ------------------------------------------------------------------ trace validation

def write_trace(path, events):
    with open(path, "w") as f:
        for e in events: f.write(json.dumps(e, separators=(",", ":")) + "\n")

def validate(module, cfg, events, timeout=600, xmx="4g", extra_files=None):
    """returns (accepted: bool, consumed: int, TlcResult). accepted <=> invariant NotAccepted violated."""
    d = os.path.join(TMP, "vtrace_%d_%d" % (os.getpid(), random.randrange(1 << 30)))
    os.makedirs(d, exist_ok=True)
    p = os.path.join(d, "t.ndjson")
    write_trace(p, events)
    r = tlc.run(module, cfg, workers=1, env={"TRACE": p}, timeout=timeout, xmx=xmx, extra_files=extra_files)
    shutil.rmtree(d, ignore_errors=True)
    post_fail = "ostcondition" in r.out and ("violated" in r.out or "false" in r.out.lower().split("ostcondition")[-1][:200])
    acc = (r.rc == 0 and not r.violation and not r.error and r.depth - 1 == len(events) and not post_fail)
    if post_fail and r.error and "ostcondition" in r.error: r.error = None
    consumed = len(events) if acc else max(0, r.depth - 1)
    if not acc and r.violation:
        # a property invariant failed at some state: number of states in the printed behaviour - 1 events were consumed
        consumed = max(0, len(re.findall(r"^State \d+:", r.trace_text, re.M)) - 1)
    return acc, consumed, r

def validate_lin(module, cfg, events, timeout=600, xmx="4g", extra_files=None):
    """trace specifications with silent steps: accepted <=> the invariant NotAccepted is violated (some placement of the
    silent steps consumed every event).  Returns (accepted, longest explained prefix, TlcResult)."""
    d = os.path.join(TMP, "vtrace_%d_%d" % (os.getpid(), random.randrange(1 << 30)))
    os.makedirs(d, exist_ok=True)
    p = os.path.join(d, "t.ndjson"); write_trace(p, events)
    r = tlc.run(module, cfg, workers=1, env={"TRACE": p}, timeout=timeout, xmx=xmx, extra_files=extra_files)
    shutil.rmtree(d, ignore_errors=True)
    acc = r.violation == "NotAccepted"
    m = re.findall(r'"MAXL", (\d+)', r.out)
    maxl = len(events) if acc else (int(m[-1]) - 1 if m else 0)
    if acc: r.error = None
    return acc, maxl, r

def validate_scripts(ctx, module, cfg, items, timeout=600, batch=400, first_event=None, extra_files=None):
    """items: list of (Script, events). Validates in batches (events concatenated; every script starts with a reset event).
    Returns list of (Script, events, consumed_in_script, TlcResult) for rejected scripts."""
    rejected = []
    todo = list(items)
    while todo:
        chunk, todo = todo[:batch], todo[batch:]
        while chunk:
            evs = []; bounds = []
            for s, e in chunk:
                bounds.append((len(evs), len(evs) + len(e))); evs += e
            acc, consumed, r = validate(module, cfg, evs, timeout=timeout, extra_files=extra_files)
            tlc.cleanup(r)
            if r.error and not r.violation:
                ctx.infra_fail("TLC error validating %s: %s" % (module, r.error[:1500])); return rejected
            if acc:
                ctx.cov["traces_validated_against_impl"] += len(chunk); break
            # find the script containing event index `consumed` (0-based index of first unmatched event)
            k = 0
            for k, (a, b) in enumerate(bounds):
                if a <= consumed < b: break
            ctx.cov["traces_validated_against_impl"] += k
            s, e = chunk[k]
            rejected.append((s, e, consumed - bounds[k][0], r))
            chunk = chunk[k + 1:]
    return rejected

def explain(module, cfg, events, consumed, timeout=300):
    """Re-run the matched prefix so that TLC prints the specification state in which the next event was refused."""
    if consumed <= 0: return "(rejected at the first event)"
    # force TLC to print the behaviour: NotAccepted is violated exactly when the prefix is consumed
    d = os.path.join(TMP, "vexp_%d_%d" % (os.getpid(), random.randrange(1 << 30)))
    os.makedirs(d, exist_ok=True)
    p = os.path.join(d, "t.ndjson"); write_trace(p, events[:consumed])
    cfgtxt = open(os.path.join(tlc.SPEC, cfg)).read().replace("POSTCONDITION TraceAccepted", "INVARIANT NotAccepted")
    xcfg = "_explain_" + cfg
    r = tlc.run(module, xcfg, workers=1, env={"TRACE": p}, timeout=timeout, extra_files={xcfg: cfgtxt})
    shutil.rmtree(d, ignore_errors=True); tlc.cleanup(r)
    t = r.trace_text
    i = t.rfind("\nState ")
    return t[i:i + 6000] if i >= 0 else t[-3000:]
