----------------------------- MODULE LocksData -----------------------------
(* placeholder: the check writes the programs recorded from the real code into a copy of this module *)
Programs == << << [op |-> "m", l |-> "node_table"], [op |-> "m", l |-> "send_buffer"], [op |-> "u", l |-> "send_buffer"], [op |-> "u", l |-> "node_table"] >> >>
=============================================================================
