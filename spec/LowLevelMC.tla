----------------------------- MODULE LowLevelMC -----------------------------
(***************************************************************************)
(* Boundary-value case analysis of the low-level constructors (C18).       *)
(* Dom(fn) gives, per argument, the values that straddle every documented  *)
(* range and every size limit; TLC enumerates the product, checks the      *)
(* internal consistency of LowLevel (an accepted call never needs a length *)
(* byte > 127, every type is a downlink type) and prints one test case per *)
(* (function, address depth, argument tuple) - each is executed against    *)
(* the real library and its outcome validated by Trace_Downlink.           *)
(***************************************************************************)
EXTENDS LowLevel, TLC, Json, FiniteSets

B  == {0, 1, 127, 128, 255}                 \* generic byte boundaries
Rep(b, n) == [i \in 1..n |-> b]
Ramp(n) == [i \in 1..n |-> (i * 37) % 256]
Bufs(lens) == {Ramp(n) : n \in lens} \cup {Rep(254, n) : n \in lens \cap (0..20)}
Structs(n) == {Rep(0, n), Rep(255, n), Ramp(n)}
Uid == {<<218, 0, 13, 104, 0, 1, 238>>, Rep(255, 7)}
Addrs == {<<0, 0, 0>>, <<1, 0, 0>>, <<1, 2, 0>>, <<254, 253, 3>>}

(* struct variants: vary one member at its boundaries, others fixed *)
Vary(base, idx, vals) == {[base EXCEPT ![idx] = v] : v \in vals}
DriveBase == <<3, 0, 0, 2, 1, 130, 16, 0, 0, 0>>
PomBase == <<3, 0, 0, 0, 0, 13, 3, 1, 0, 0, 5, 0, 0, 0>>

Dom(fn) ==
  CASE fn \in {"bidib_send_sys_get_magic", "bidib_send_sys_get_p_version", "bidib_send_sys_enable", "bidib_send_sys_disable",
               "bidib_send_sys_get_unique_id", "bidib_send_sys_get_sw_version", "bidib_send_sys_get_error",
               "bidib_send_nodetab_getall", "bidib_send_nodetab_getnext", "bidib_send_get_pkt_capacity",
               "bidib_send_feature_getall", "bidib_send_feature_getnext", "bidib_send_vendor_disable",
               "bidib_send_fw_update_op_exit", "bidib_send_fw_update_op_done", "bidib_send_bm_get_confidence",
               "bidib_send_boost_query", "bidib_send_cs_allocate", "bidib_send_cs_rcplus_get_id",
               "bidib_send_cs_rcplus_ping_once_p0", "bidib_send_cs_rcplus_ping_once_p1"} -> <<>>
    [] fn \in {"bidib_send_sys_ping", "bidib_send_node_changed_ack", "bidib_send_feature_get", "bidib_send_bm_mirror_occ",
               "bidib_send_bm_mirror_free", "bidib_send_cs_rcplus_ping"} -> <<B \cup {253, 254}>>
    [] fn \in {"bidib_send_sys_identify", "bidib_send_fw_update_op_setdest", "bidib_send_boost_on", "bidib_send_boost_off"} -> <<{0, 1, 2, 255}>>
    [] fn = "bidib_send_sys_clock" -> <<{0, 59, 60}, {127, 128, 151, 152}, {63, 64, 70, 71}, {191, 192, 223, 224}>>
    [] fn \in {"bidib_send_feature_set", "bidib_send_string_get", "bidib_send_lc_port_query", "bidib_send_lc_configx_get",
               "bidib_send_lc_macro_get", "bidib_send_lc_macro_para_get"} -> <<B, B>>
    [] fn \in {"bidib_send_vendor_enable", "bidib_send_fw_update_op_enter"} -> <<Uid>>
    \* 127 / 128 / 200 / 254 / 255: sums of the two lengths beyond 8 bits (an 8-bit sum would wrap into the accepted range)
    [] fn = "bidib_send_vendor_set" -> <<{0, 1, 59, 60, 119, 120, 127, 128, 200, 254, 255}, {Ramp(120)}, {0, 1, 59, 60, 119, 120, 127, 128, 200, 254, 255}, {Ramp(120), Rep(253, 120)}>>
    [] fn = "bidib_send_vendor_get" -> <<{0, 1, 119, 120, 121, 255}, {Ramp(121), Rep(254, 121)}>>
    [] fn = "bidib_send_string_set" -> <<{0, 255}, {0, 255}, {0, 1, 117, 118, 119, 255}, {Ramp(119), Rep(253, 119)}>>
    [] fn = "bidib_send_fw_update_op_data" -> <<{0, 1, 119, 120, 121, 122, 255}, {Ramp(122), [i \in 1..122 |-> IF i % 5 = 0 THEN 32 ELSE IF i % 7 = 0 THEN 10 ELSE 58],
                                                           \* every control / blank character: only 0x20 0x09 0x0D 0x0A are "white"
                                                           [i \in 1..122 |-> IF i <= 34 THEN i - 1 ELSE 58]}>>
    [] fn = "bidib_send_bm_get_range" -> <<{0, 7, 8, 248, 255}, {0, 7, 8, 248, 255}>>
    [] fn = "bidib_send_bm_mirror_multiple" -> <<{0, 4, 8, 248}, {0, 7, 8, 16, 120, 128, 129, 136, 255}, {Ramp(17), Rep(254, 17)}>>
    [] fn = "bidib_send_bm_addr_get_range" -> <<{0, 1, 128, 255}, {0, 1, 128, 255}>>
    [] fn = "bidib_send_msg_bm_mirror_position" -> <<B, {0, 255}, {0, 255}>>
    [] fn = "bidib_send_accessory_set" -> <<{0, 127, 128, 255}, {0, 127, 128, 255}>>
    [] fn = "bidib_send_accessory_get" -> <<{0, 127, 128, 255}>>
    [] fn = "bidib_send_accessory_para_set_opmode" -> <<{0, 127, 128}, {0, 127, 128, 255}>>
    [] fn = "bidib_send_accessory_para_set_startup" -> <<{0, 127, 128}, {0, 127, 128, 253, 254, 255}>>
    [] fn = "bidib_send_accessory_para_set_macromap" -> <<{0, 127, 128}, {0, 1, 2, 15, 16, 17, 255},
             {<<255>>, <<1, 255>>, <<1, 2>>, [i \in 1..16 |-> IF i = 16 THEN 255 ELSE i], [i \in 1..17 |-> IF i = 15 THEN 255 ELSE i], <<>>}>>
    [] fn = "bidib_send_accessory_para_set_switch_time" -> <<{0, 127, 128}, B>>
    [] fn = "bidib_send_accessory_para_get" -> <<{0, 127, 128}, {0, 250, 251, 255}>>
    [] fn = "bidib_send_lc_output" -> <<{0, 255}, {0, 255}, B>>
    [] fn = "bidib_send_lc_port_query_all" -> <<Structs(6)>>
    [] fn = "bidib_send_lc_configx_set" -> <<{0, 255}, {0, 255}, {0, 1, 2, 7, 8, 9, 255}, {Ramp(18), Rep(254, 16)}>>
    [] fn = "bidib_send_lc_configx_get_all" -> <<{0, 255}, {0, 255}, Structs(4)>>
    [] fn = "bidib_send_lc_macro_handle" -> <<{0, 255}, {0, 1, 2, 251, 252, 255}>>
    [] fn \in {"bidib_send_lc_macro_set", "bidib_send_lc_macro_para_set"} -> <<Structs(6)>>
    [] fn = "bidib_send_cs_set_state" -> <<{0, 4, 5, 7, 8, 9, 10, 12, 13, 14, 254, 255}>>
    [] fn = "bidib_send_cs_drive" -> <<Vary(DriveBase, 4, {0, 1, 2, 3, 4, 255}) \cup Vary(DriveBase, 5, {0, 63, 64, 255})
                                       \cup Vary(DriveBase, 7, {0, 31, 32, 255}) \cup Vary(DriveBase, 6, {0, 127, 128, 255}) \cup Structs(10)>>
    [] fn = "bidib_send_cs_accessory" -> <<Structs(5)>>
    [] fn = "bidib_send_cs_pom" -> <<Vary(PomBase, 7, {0, 3, 4, 66, 67, 71, 127, 128, 131, 132, 135, 139, 143, 144, 255}) \cup Structs(14)>>
    [] fn = "bidib_send_cs_bin_state" -> <<Vary(Rep(1, 6), 6, {0, 1, 2, 255})>>
    [] fn = "bidib_send_cs_prog" -> <<Vary(Rep(1, 4), 1, {0, 4, 5, 255})>>
    [] fn = "bidib_send_cs_rcplus_set_id" -> <<Structs(6)>>
    [] fn = "bidib_send_cs_rcplus_bind" -> <<Structs(5), {0, 255}, {0, 255}>>
    [] fn \in {"bidib_send_cs_rcplus_find_p0", "bidib_send_cs_rcplus_find_p1"} -> <<Structs(5)>>

Fns == {
  "bidib_send_sys_get_magic", "bidib_send_sys_get_p_version", "bidib_send_sys_enable", "bidib_send_sys_disable",
  "bidib_send_sys_get_unique_id", "bidib_send_sys_get_sw_version", "bidib_send_sys_ping", "bidib_send_sys_identify",
  "bidib_send_sys_get_error", "bidib_send_nodetab_getall", "bidib_send_nodetab_getnext", "bidib_send_get_pkt_capacity",
  "bidib_send_node_changed_ack", "bidib_send_sys_clock", "bidib_send_feature_getall", "bidib_send_feature_getnext",
  "bidib_send_feature_get", "bidib_send_feature_set", "bidib_send_vendor_enable", "bidib_send_vendor_disable",
  "bidib_send_vendor_set", "bidib_send_vendor_get", "bidib_send_string_set", "bidib_send_string_get",
  "bidib_send_fw_update_op_enter", "bidib_send_fw_update_op_exit", "bidib_send_fw_update_op_setdest",
  "bidib_send_fw_update_op_data", "bidib_send_fw_update_op_done", "bidib_send_bm_get_range", "bidib_send_bm_mirror_multiple",
  "bidib_send_bm_mirror_occ", "bidib_send_bm_mirror_free", "bidib_send_bm_addr_get_range", "bidib_send_bm_get_confidence",
  "bidib_send_msg_bm_mirror_position", "bidib_send_boost_on", "bidib_send_boost_off", "bidib_send_boost_query",
  "bidib_send_accessory_set", "bidib_send_accessory_get", "bidib_send_accessory_para_set_opmode",
  "bidib_send_accessory_para_set_startup", "bidib_send_accessory_para_set_macromap",
  "bidib_send_accessory_para_set_switch_time", "bidib_send_accessory_para_get", "bidib_send_lc_output",
  "bidib_send_lc_port_query", "bidib_send_lc_port_query_all", "bidib_send_lc_configx_set", "bidib_send_lc_configx_get",
  "bidib_send_lc_configx_get_all", "bidib_send_lc_macro_handle", "bidib_send_lc_macro_set", "bidib_send_lc_macro_get",
  "bidib_send_lc_macro_para_set", "bidib_send_lc_macro_para_get", "bidib_send_cs_allocate", "bidib_send_cs_set_state",
  "bidib_send_cs_drive", "bidib_send_cs_accessory", "bidib_send_cs_pom", "bidib_send_cs_bin_state", "bidib_send_cs_prog",
  "bidib_send_cs_rcplus_get_id", "bidib_send_cs_rcplus_set_id", "bidib_send_cs_rcplus_ping",
  "bidib_send_cs_rcplus_ping_once_p0", "bidib_send_cs_rcplus_ping_once_p1", "bidib_send_cs_rcplus_bind",
  "bidib_send_cs_rcplus_find_p0", "bidib_send_cs_rcplus_find_p1" }

RECURSIVE Product(_)
Product(doms) == IF Len(doms) = 0 THEN {<<>>}
                 ELSE {<<x>> \o rest : x \in doms[1], rest \in Product(Tail(doms))}

Cases(fn) == Product(Dom(fn))

(* ---- internal consistency of the transcription ---- *)
ASSUME AllKnown == \A fn \in Fns : \A a \in Cases(fn) : LLSpec(fn, a).acc \in {"yes", "no", "any"}
ASSUME TypeBelow0x80 == \A fn \in Fns : \A a \in Cases(fn) : LLSpec(fn, a).acc # "no" => LLSpec(fn, a).ty \in 1..127
ASSUME LenByteLe127 == \A fn \in Fns : \A a \in Cases(fn) : LLSpec(fn, a).acc = "yes" =>
                          \A na \in Addrs : LenByte(AddrOf(na), LLSpec(fn, a).data) <= 127
ASSUME BothOutcomesCovered == \A fn \in Fns : Len(Dom(fn)) > 0 =>
                          (\E a \in Cases(fn) : LLSpec(fn, a).acc = "yes")
ASSUME Emit == \A fn \in Fns : \A a \in Cases(fn) : \A na \in Addrs :
                  PrintT(<<"CASE", ToJson([fn |-> fn, na |-> na, args |-> a, acc |-> LLSpec(fn, a).acc])>>)

VARIABLE x
Init == x = 0
Next == x' = x
Spec == Init /\ [][Next]_x
=============================================================================
