------------------------------- MODULE WireMC -------------------------------
EXTENDS Wire
M(addr, seq, ty, data) == MsgBytes(addr, seq, ty, data)
Fill(n, b) == [i \in 1..n |-> b]
(* sender pool: lengths straddling 64-byte capacity, escape bytes, a CRC that needs escaping *)
Pool == { M(<<>>, 1, 7, <<254>>), M(<<1>>, 253, 22, <<253, 254, 221>>), M(<<1, 2, 3>>, 2, 26, Fill(5, 222)),
          M(<<>>, 9, 15, Fill(12, 254)), M(<<2>>, 0, 34, <<0>>) }
(* uplink tokens *)
P1 == EncodePacket(M(<<>>, 1, 129, <<254, 175>>))
P2 == EncodePacket(M(<<1>>, 0, 160, <<3>>) \o M(<<1, 2>>, 7, 163, <<0, 253, 1>>))
FlipBit(s, i) == [s EXCEPT ![i] = BXor(@, 1)]
Drop(s, i) == SubSeq(s, 1, i - 1) \o SubSeq(s, i + 1, Len(s))
Toks == { P1, P2, FlipBit(P1, 4), FlipBit(P2, Len(P2) - 1), Drop(P2, 3), SubSeq(P2, 1, 6), <<254>>, <<254, 254>>, <<7, 9>>, <<253>> }
=============================================================================
