"""Script generators for the downlink path (debug mode: every uplink message but MSG_STALL is just queued)."""
import random
from .drv import Script
from . import wire

# (function, argument generator) - valid calls with a spread of response sizes (size in comment)
def _b(rng): return rng.choice([0, 1, 2, 7, 0x20, 0x7f, 0x80, 0xdd, 0xde, 0xfd, 0xfe, 0xff, rng.randrange(256)])
MENU = [
    ("bidib_send_sys_get_magic", lambda r: []),                      # 6
    ("bidib_send_sys_ping", lambda r: [_b(r)]),                      # 5
    ("bidib_send_sys_get_unique_id", lambda r: []),                  # 11
    ("bidib_send_nodetab_getnext", lambda r: []),                    # 13
    ("bidib_send_bm_get_range", lambda r: [r.randrange(0, 16) * 8, r.randrange(0, 32) * 8]),   # 21
    ("bidib_send_string_get", lambda r: [_b(r), _b(r)]),             # 30
    ("bidib_send_vendor_get", lambda r: (lambda k: [k, [_b(r) for _ in range(k)]])(r.randrange(0, 6))),  # 32
    ("bidib_send_lc_configx_get", lambda r: [_b(r), _b(r)]),         # 40
    ("bidib_send_lc_port_query_all", lambda r: [[_b(r) for _ in range(6)]]),   # 0
    ("bidib_send_bm_mirror_occ", lambda r: [_b(r)]),                 # 0
    ("bidib_send_feature_get", lambda r: [_b(r)]),                   # 6
    ("bidib_send_accessory_get", lambda r: [r.randrange(128)]),      # 9
    ("bidib_send_lc_output", lambda r: [_b(r), _b(r), _b(r)]),       # 7
    ("bidib_send_boost_query", lambda r: []),                        # 5
    ("bidib_send_cs_set_state", lambda r: [r.choice([0, 1, 2, 3, 4, 8, 9, 13, 255])]),  # 5
]
SIG = {}
def _sigs():
    if not SIG:
        import sys, os
        sys.path.insert(0, os.path.join(os.path.dirname(__file__), ".."))
        import llsigs
        for fn, sig in llsigs.SIGS: SIG[fn] = sig.split()
    return SIG

def ll_line(fn, na, args):
    """script line + event for a low-level call; args in LowLevel.tla convention (ints / byte lists)"""
    toks = ["ll", fn]
    sig = _sigs()[fn]
    ai = 0
    for p in sig:
        if p == "A":
            toks += ["%02x" % x for x in na]
        elif p == "B":
            toks.append("%02x" % args[ai]); ai += 1
        elif p.startswith("S:") or p == "P":
            toks.append(wire.hexs(args[ai])); ai += 1
        elif p == "V":
            toks += ["%02x" % args[ai], wire.hexs(args[ai+1]), "%02x" % args[ai+2], wire.hexs(args[ai+3])]; ai += 4
    ev = {"e": "ll", "fn": fn, "na": list(na) if "A" in sig else [0, 0, 0], "args": args}
    return " ".join(toks), ev

def addr_of(na):
    out = []
    for x in na:
        if x == 0: break
        out.append(x)
    return out

def up_line(addr, ty, data, seq=0, sv=0):
    pk = wire.packet([wire.msg(addr, seq, ty, data)])
    return "feed " + wire.hexs(pk), {"e": "up", "n": list(addr), "ty": ty, "sv": sv}

def session_start(s):
    s.add("debug 1")
    s.add("start ~ 0", {"e": "reset"})

ANSWERS = {}   # filled from the driver's table dump: type -> list of answer types

def gen_random(rng, sid, nev, nas, weights=None, respinfo=None):
    """random history over node addresses `nas` (list of 3-byte node addresses)"""
    w = weights or {"send": 10, "up": 6, "stall": 2, "tick": 1, "flush": 2}
    kinds = [k for k in w for _ in range(w[k])]
    s = Script(sid)
    session_start(s)
    outstanding = {}     # addr tuple -> list of request types (rough, for picking plausible answers)
    for _ in range(nev):
        k = rng.choice(kinds)
        if k == "send":
            fn, g = rng.choice(MENU)
            na = rng.choice(nas)
            args = g(rng)
            line, ev = ll_line(fn, na, args)
            s.add(line, ev)
            outstanding.setdefault(tuple(addr_of(na)), []).append(fn)
        elif k == "up":
            na = rng.choice(nas); a = addr_of(na)
            if respinfo and rng.random() < 0.75:
                # an answer type that some request type accepts (matching / alternative / unrelated / duplicate mix)
                row = rng.choice([r for r in respinfo if r[1] > 0])
                ty = row[rng.randrange(2, row[0] + 1)]
            else:
                ty = rng.choice([0xa0, 0xa1, 0x86, 0x82, 0xc0])
            line, ev = up_line(a, ty, [rng.randrange(256) for _ in range(rng.randrange(0, 4))])
            s.add(line, ev)
        elif k == "stall":
            na = rng.choice(nas); a = addr_of(na)
            sv = rng.choice([0, 1, 1, 0, 5])
            line, ev = up_line(a, 0x8e, [sv], sv=sv)
            s.add(line, ev)
        elif k == "tick":
            d = rng.choice([1, 1, 2, 3])
            s.add("tick %d" % d, {"e": "tick", "d": d})
        elif k == "flush":
            s.add("flush", {"e": "flush"})
    s.add("flush", {"e": "flush"})
    s.add("stop")
    return s


# (function, args, response size, answer type, answer data): requests with different worst-case answer sizes
PRESSURE = [("bidib_send_sys_get_magic", lambda r: [], 6, 0x81, [0xFE, 0xAF]), ("bidib_send_sys_ping", lambda r: [_b(r)], 5, 0x82, [1]),
            ("bidib_send_sys_get_unique_id", lambda r: [], 11, 0x84, [0, 0, 13, 1, 2, 3, 4]), ("bidib_send_feature_get", lambda r: [_b(r)], 6, 0x90, [1, 2]),
            ("bidib_send_bm_get_range", lambda r: [0, 16], 21, 0xa2, [0, 8, 0]), ("bidib_send_string_get", lambda r: [0, 1], 30, 0x95, [0, 1, 1, 65]),
            ("bidib_send_vendor_get", lambda r: [1, [65]], 32, 0x93, [1, 65, 1, 66]), ("bidib_send_bm_mirror_occ", lambda r: [_b(r)], 0, None, None)]

def gen_pressure(rng, sid, nas, rounds=3):
    """budget pressure: the 48-byte budget of a node is filled exactly or nearly, requests of DIFFERENT answer sizes are held
    (small ones in front of big ones and the other way round), then the oldest outstanding requests are answered one at a
    time without letting anything expire: each answer frees room for some of the held requests but not for all of them"""
    s = Script(sid); session_start(s)
    for _ in range(rounds):
        na = rng.choice(nas); a = addr_of(na); used = 0; out = []
        while True:
            fn, ag, size, at, ad = rng.choice(PRESSURE)
            if used + size > 48: break
            line, ev = ll_line(fn, na, ag(rng)); s.add(line, ev); used += size
            if size: out.append((at, ad))
            if len(out) > 12: break
        held = [rng.choice(PRESSURE) for _ in range(rng.choice([2, 3, 4]))]
        if rng.random() < 0.5: held.sort(key=lambda x: x[2])                 # small in front of big
        for fn, ag, size, at, ad in held:
            line, ev = ll_line(fn, na, ag(rng)); s.add(line, ev)
            if size: out.append((at, ad))
        s.add("flush", {"e": "flush"})
        for at, ad in out[:rng.randrange(1, len(out) + 1)]:
            line, ev = up_line(a, at, ad); s.add(line, ev)
            if rng.random() < 0.3: s.add("tick 1", {"e": "tick", "d": 1})
            if rng.random() < 0.3: s.add("flush", {"e": "flush"})
        s.add("tick 3", {"e": "tick", "d": 3})
        line, ev = up_line(a, 0xa0, [0]); s.add(line, ev)
        s.add("flush", {"e": "flush"})
    s.add("stop")
    return s
