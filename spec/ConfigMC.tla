------------------------------ MODULE ConfigMC ------------------------------
(***************************************************************************)
(* Config evaluated by TLC: algebraic sanity of the clauses on small       *)
(* hand-written configurations (ASSUME), and the verdict - the set of      *)
(* failing clauses - for every case the check is about to run on the real  *)
(* library (CASES -> OUT).  The check compares the verdicts with the class *)
(* each case was generated for.                                            *)
(***************************************************************************)
EXTENDS Config, Json, IOUtils, TLC, SequencesExt

Empty == [boards |-> <<>>, track |-> <<>>, trains |-> <<>>]
B(id, u) == [id |-> id, uid |-> <<u, 0, 13, 0, 0, 0, 1>>, features |-> <<>>]
Sec0(id) == [id |-> id, pb |-> <<>>, sb |-> <<>>, pd |-> <<>>, sd |-> <<>>, per |-> <<>>, seg |-> <<>>, rev |-> <<>>]
Pt(id, num, ini) == [id |-> id, num |-> num, aspects |-> <<[id |-> "n", val |-> 1], [id |-> "r", val |-> 0]>>, initial |-> ini]
T(id, al, steps) == [id |-> id, al |-> al, ah |-> 0, steps |-> steps, cal |-> <<>>, per |-> <<>>]
Two == [boards |-> <<B("b1", 128), B("b2", 0)>>, track |-> <<[Sec0("b1") EXCEPT !.pb = <<Pt("p1", 1, "n"), Pt("p2", 2, "")>>, !.seg = <<[id |-> "s1", addr |-> 0]>>], Sec0("b2")>>,
        trains |-> <<T("t1", 3, 28), T("t2", 4, 126)>>]

ASSUME Accept(Empty) /\ Accept(Two)
ASSUME Failing([Two EXCEPT !.boards[2].id = "b1", !.track = <<@[1]>>]) = {"BoardIdsUnique"}
ASSUME Failing([Two EXCEPT !.boards[2].id = "b1"]) = {"BoardIdsUnique", "TrackBoardsDeclared"}
ASSUME Failing([Two EXCEPT !.boards[2].uid = Two.boards[1].uid]) = {"BoardUidsUnique"}
ASSUME Failing([Two EXCEPT !.track[2].id = "b9"]) = {"TrackBoardsDeclared"}
ASSUME Failing([Two EXCEPT !.track[1].pb[2].num = 1]) = {"NumbersUniquePerBoard"}
ASSUME Failing([Two EXCEPT !.track[1].pb[2].id = "p1"]) = {"PointIdsUnique"}
ASSUME Failing([Two EXCEPT !.track[2].pb = <<Pt("p1", 7, "")>>]) = {"PointIdsUnique"}             \* ids are unique over all boards
ASSUME Accept([Two EXCEPT !.track[2].pb = <<Pt("p3", 1, "")>>])                                    \* numbers only per board
ASSUME Failing([Two EXCEPT !.track[1].pb[1].initial = "x"]) = {"AspectsOk"}
ASSUME Failing([Two EXCEPT !.track[1].pb[1].aspects = <<>>, !.track[1].pb[1].initial = ""]) = {"AspectsOk"}
ASSUME Failing([Two EXCEPT !.trains[2].al = 3]) = {"DccAddressesUnique"}
ASSUME Failing([Two EXCEPT !.trains[2].steps = 27]) = {"TrainsOk"}
ASSUME Failing([Two EXCEPT !.trains[1].cal = <<1, 2, 3, 4, 5, 6, 7, 8>>]) = {"TrainsOk"}
ASSUME Accept([Two EXCEPT !.trains[1].cal = <<1, 2, 3, 4, 5, 6, 7, 8, 126>>])
ASSUME Failing([Two EXCEPT !.trains[1].cal = <<1, 2, 3, 4, 5, 6, 7, 8, 127>>]) = {"TrainsOk"}
ASSUME Failing([Two EXCEPT !.trains[1].per = <<[id |-> "f", bit |-> 32, initial |-> -1]>>]) = {"TrainsOk"}
ASSUME Accept([Two EXCEPT !.trains[1].per = <<[id |-> "f", bit |-> 31, initial |-> -1], [id |-> "g", bit |-> 0, initial |-> 1]>>])
ASSUME ExpectedLists(Two, [b1 |-> 1, b2 |-> 0]).connected_points = {"p1", "p2"}
ASSUME ExpectedLists(Two, [b1 |-> 0, b2 |-> 1]).connected_points = {}
ASSUME ExpectedLists(Two, [b1 |-> 0, b2 |-> 1]).boards = {"b1", "b2"}

Cases == JsonDeserialize(IOEnv.CASES)
Verdicts == [i \in DOMAIN Cases |-> SetToSeq(Failing(Cases[i].cfg))]

VARIABLE done
Init == done = FALSE
Next == ~done /\ JsonSerialize(IOEnv.OUT, Verdicts) /\ PrintT(<<"VERDICTS", Len(Cases)>>) /\ done' = TRUE
Spec == Init /\ [][Next]_done
=============================================================================
