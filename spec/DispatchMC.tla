----------------------------- MODULE DispatchMC -----------------------------
(* Exhaustive model of the queue automaton with a small bound: a producer delivering numbered messages to the three
   queues and two readers popping from any queue.  Checked: bounded, FIFO, every delivered message is returned at
   most once, and exactly the messages dropped by overflow are never returned. *)
EXTENDS Dispatch, FiniteSets, TLC

CONSTANTS MaxMsgs
VARIABLES uq, next, got, dropped
dvars == <<uq, next, got, dropped>>

DInit == uq = QEmpty /\ next = 1 /\ got = [k \in {"msg", "err", "int"} |-> <<>>] /\ dropped = {}
Deliver(k) == /\ next <= MaxMsgs
              /\ uq' = QPush(uq, k, next)
              /\ dropped' = IF Len(uq[k]) >= QMax THEN dropped \cup {Head(uq[k])} ELSE dropped
              /\ next' = next + 1 /\ UNCHANGED got
Read(k) == LET r == QRead(uq, k) IN
           /\ uq' = r.uq
           /\ got' = IF ~r.ok THEN got ELSE [got EXCEPT ![k] = Append(@, r.res)]
           /\ UNCHANGED <<next, dropped>>
DNext == \E k \in {"msg", "err", "int"} : Deliver(k) \/ Read(k)
DSpec == DInit /\ [][DNext]_dvars

Bounded == \A k \in DOMAIN uq : Len(uq[k]) <= QMax
Increasing(s) == \A i, j \in DOMAIN s : i < j => s[i] < s[j]
FIFO == \A k \in DOMAIN uq : Increasing(got[k] \o uq[k])
OnceOnly == \A k \in DOMAIN got : \A i, j \in DOMAIN got[k] : i # j => got[k][i] # got[k][j]
Accounted == LET ret == UNION {{got[k][i] : i \in DOMAIN got[k]} : k \in DOMAIN got}
                 inq == UNION {{uq[k][i] : i \in DOMAIN uq[k]} : k \in DOMAIN uq}
             IN /\ ret \cap dropped = {} /\ inq \cap dropped = {} /\ ret \cap inq = {}
                /\ ret \cup inq \cup dropped = 1..(next - 1)
=============================================================================
