---------------------------- MODULE Trace_Fault ----------------------------
(* Acceptance for fault-injection runs (C12): whatever was fed before, the probe packet fed afterwards is processed -
   in both modes its message is the last one returned by bidib_read_message - and the process is still answering.
   Events: case cls what mode n / probe raw msgs alive *)
EXTENDS Sequences, Naturals, Json, IOUtils, TLC
VARIABLES l, cases
Tr == ndJsonDeserialize(IOEnv.TRACE)
Ev == Tr[l]
IsEv(k) == l <= Len(Tr) /\ Tr[l].e = k /\ l' = l + 1
TInit == l = 1 /\ cases = 0
TCase == IsEv("case") /\ cases' = cases + 1
TProbe == /\ IsEv("probe")
          /\ Ev.alive = 1
          /\ Len(Ev.msgs) >= 1 /\ Ev.msgs[Len(Ev.msgs)] = Ev.raw          \* the probe came through, after everything before it
          /\ UNCHANGED cases
TNext == TCase \/ TProbe
TSpec == TInit /\ [][TNext]_<<l, cases>>
TraceAccepted == TLCGet("stats").diameter - 1 = Len(Tr)
=============================================================================
