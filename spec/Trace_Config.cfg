SPECIFICATION CSpec
CONSTANTS TQ = {}
POSTCONDITION TraceAccepted
CHECK_DEADLOCK FALSE
