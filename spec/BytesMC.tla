------------------------------ MODULE BytesMC ------------------------------
(* Exhaustive checks of the framing operators themselves (no state machine):
   TLC evaluates the ASSUMEs; the trivial spec below only gives TLC something to run. *)
EXTENDS Bytes, TLC

Alphabet == {0, 1, 3, 32, 221, 222, 253, 254}
PayloadsUpTo(n) == UNION {[1..k -> Alphabet] : k \in 1..n}

ASSUME TableIsPolynomial == \A c \in {0, 1, 94, 253, 254, 255} : \A b \in Byte : CrcStep(c, b) = CrcByteDef(c, b)
ASSUME CrcResidueZero == \A p \in PayloadsUpTo(4) : Crc8(p \o <<Crc8(p)>>) = 0
ASSUME EscapeRoundTrip == \A p \in PayloadsUpTo(4) : Unesc(EscSeq(p)) = p /\ ProperlyEscaped(EscSeq(p)) /\ CanonicalEscaped(EscSeq(p))
ASSUME NoMagicInside == \A p \in PayloadsUpTo(4) : \A i \in 1..Len(EscSeq(p)) : EscSeq(p)[i] # MAGIC
ASSUME PacketRoundTrip == \A p \in PayloadsUpTo(3) : \A q \in PayloadsUpTo(2) :
          LET s == EncodePacket(p) \o EncodePacket(q) IN
          /\ Len(FramesSynced(s)) = 2
          /\ Payload(Unesc(FramesSynced(s)[1])) = p /\ Payload(Unesc(FramesSynced(s)[2])) = q
          /\ CrcOk(Unesc(FramesSynced(s)[1]))
ASSUME MsgRoundTrip == \A a \in {<<>>, <<1>>, <<1, 2>>, <<254, 253, 9>>} : \A d \in PayloadsUpTo(2) \cup {<<>>} :
          LET m == MsgBytes(a, 7, 130, d) IN
          /\ MsgWellFormed(m) /\ ParseMsg(m) = [addr |-> a, seq |-> 7, ty |-> 130, data |-> d]
          /\ SplitMsgs(m \o m) = <<m, m>>
          /\ WireWellFormed(EncodePacket(m \o m))

VARIABLE x
Init == x = 0
Next == x' = x
Spec == Init /\ [][Next]_x
=============================================================================
