"""Run TLC with a scratch metadir/workdir outside /verif and /repo; parse its summary."""
import os, re, shutil, subprocess, tempfile, time

VERIF = os.path.abspath(os.path.join(os.path.dirname(__file__), "..", ".."))
SPEC = os.path.join(VERIF, "spec")
JAR = "/opt/veriftools/tla/tla2tools.jar"
CM = "/opt/veriftools/tla/CommunityModules-deps.jar"

class TlcResult:
    def __init__(self):
        self.rc = None; self.out = ""; self.states = 0; self.distinct = 0; self.depth = 0
        self.violation = None      # name of violated invariant / property, or "deadlock", or None
        self.error = None          # TLC-level error text (parse errors, evaluation errors)
        self.coverage = {}         # action -> (taken/distinct, generated)
        self.wall = 0.0
        self.trace_text = ""

def run(module, cfg, workers=8, simulate=None, depth=None, env=None, timeout=3600, coverage=False,
        deadlock=None, extra=None, xmx="8g", deque=False, seed=None, dump=None, extra_files=None):
    """module: file name in spec/ (without dir); cfg: file name in spec/. Returns TlcResult."""
    scratch = tempfile.mkdtemp(prefix="vtlc_", dir=os.environ.get("VERIF_TMP", "/tmp"))
    # copy the spec dir so that TLC's TTrace files and states never land in /verif
    wd = os.path.join(scratch, "spec")
    shutil.copytree(SPEC, wd)
    for fn, txt in (extra_files or {}).items():
        with open(os.path.join(wd, fn), "w") as f: f.write(txt)
    os.makedirs(os.path.join(scratch, "jtmp"), exist_ok=True)      # TLC's own temporary directories go with the scratch dir
    jopts = ["-XX:+UseParallelGC", "-Xmx" + xmx, "-Xss512m", "-Djava.io.tmpdir=" + os.path.join(scratch, "jtmp")]
    if deque:
        jopts.append("-Dtlc2.tool.queue.IStateQueue=StateDeque")
    cmd = ["java"] + jopts + ["-cp", JAR + ":" + CM, "tlc2.TLC", "-noGenerateSpecTE", "-metadir", os.path.join(scratch, "meta"),
           "-workers", str(workers), "-config", cfg]
    if simulate:
        cmd += ["-simulate", "num=%d" % simulate]
        if depth: cmd += ["-depth", str(depth)]
    if coverage: cmd += ["-coverage", "1"]
    if deadlock is False: cmd += ["-deadlock"]
    if seed is not None: cmd += ["-seed", str(seed)]
    if dump: cmd += ["-dump", dump[0], dump[1]]
    if extra: cmd += extra
    cmd.append(module)
    e = dict(os.environ)
    if env: e.update(env)
    r = TlcResult()
    t0 = time.time()
    try:
        p = subprocess.run(cmd, cwd=wd, env=e, capture_output=True, text=True, timeout=timeout)
        r.rc = p.returncode; r.out = p.stdout + p.stderr
    except subprocess.TimeoutExpired as ex:
        r.rc = -9; r.out = (ex.stdout or b"").decode(errors="replace") if isinstance(ex.stdout, bytes) else (ex.stdout or "")
        r.error = "timeout"
    r.wall = time.time() - t0
    r.scratch = scratch
    parse(r)
    return r

def cleanup(r):
    shutil.rmtree(getattr(r, "scratch", ""), ignore_errors=True)

def parse(r):
    o = r.out
    m = re.findall(r"(\d+) states generated, (\d+) distinct states found", o)
    if m:
        r.states, r.distinct = int(m[-1][0]), int(m[-1][1])
    m = re.search(r"The depth of the complete state graph search is (\d+)", o)
    if m: r.depth = int(m.group(1))
    m = re.search(r"Invariant (\S+) is violated", o)
    if m: r.violation = m.group(1)
    elif "Deadlock reached" in o: r.violation = "deadlock"
    else:
        m = re.search(r"(?:Temporal properties were violated|Action property (\S+) is violated|Temporal property (\S+) was violated)", o)
        if m: r.violation = m.group(1) or m.group(2) or "temporal"
    if r.violation:
        i = o.find("Error: The behavior up to this point is")
        if i >= 0: r.trace_text = o[i:]
    if r.error is None:
        m = re.search(r"(Parsing or semantic analysis failed|Error: .*(?:evaluat|TLC threw|Attempted|was not|overflow|nonexistent|undefined|Assumption .* is false).*)", o)
        if m and not r.violation: r.error = o[m.start():m.start() + 2000]
        elif r.rc not in (0, 12, 11, 10, 13) and not r.violation and r.rc is not None:
            r.error = "rc=%s\n%s" % (r.rc, o[-2000:])
        elif not r.violation and r.rc in (12, 11, 10, 13):
            # TLC reports a violation class by its exit code, the text was not recognised above: never treat that as a pass
            m = re.search(r"Error: .*", o)
            r.error = "rc=%s (violation class not recognised): %s" % (r.rc, m.group(0)[:400] if m else o[-600:])
    for m in re.finditer(r"<(\w+) line \d+, col \d+ to line \d+, col \d+ of module (\w+)>: (\d+):(\d+)", o):
        r.coverage[m.group(1)] = (int(m.group(3)), int(m.group(4)))

def sany(path):
    p = subprocess.run(["java", "-cp", JAR + ":" + CM, "tla2sany.SANY", os.path.basename(path)], cwd=os.path.dirname(path),
                       capture_output=True, text=True)
    ok = p.returncode == 0 and "error" not in p.stdout.lower().replace("errors: 0", "")
    return ok, p.stdout + p.stderr


def apalache_inductive(module, qmax, timeout=900):
    """Apalache: Init => IndInv (length 0) and IndInit /\\ Next => IndInv' (length 1) for module (spec/<module>, constant QMax
    rewritten to qmax).  Returns (ok: bool | None, text): None = the tool did not run / did not finish (auxiliary step)."""
    import shutil as _sh
    if _sh.which("apalache-mc") is None: return None, "apalache-mc not installed"
    scratch = tempfile.mkdtemp(prefix="vapa_", dir=os.environ.get("VERIF_TMP", "/tmp"))
    try:
        src = open(os.path.join(SPEC, "apalache", module)).read()      # kept apart: SANY / TLC have no Apalache.tla, setup parses spec/*.tla
        src = re.sub(r"^QMax == \d+", "QMax == %d" % qmax, src, flags=re.M)
        open(os.path.join(scratch, module), "w").write(src)
        outs = []
        for args in (["--init=Init", "--inv=IndInv", "--length=0"], ["--init=IndInit", "--inv=IndInv", "--length=1"]):
            try:
                p = subprocess.run(["apalache-mc", "check", "--out-dir=" + os.path.join(scratch, "out")] + args + [module], cwd=scratch, capture_output=True, text=True, timeout=timeout)
            except subprocess.TimeoutExpired:
                return None, "apalache-mc timed out after %d s" % timeout
            outs.append(p.stdout[-600:])
            if "EXITCODE: OK" not in p.stdout:
                if "violat" in p.stdout.lower() or "EXITCODE: ERROR (12)" in p.stdout: return False, p.stdout[-1500:]
                return None, "apalache-mc did not finish normally: " + p.stdout[-500:]
        return True, "inductive for QMax = %d: %s" % (qmax, " | ".join(re.findall(r"Total time: [0-9.]+ sec", "".join(outs))))
    finally:
        shutil.rmtree(scratch, ignore_errors=True)
