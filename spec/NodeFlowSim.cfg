SPECIFICATION SimSpec
CONSTANTS
  Q = {}
  Addrs <- MC_AddrsDeep
  Types = { 34, 1, 12, 23, 71 }
  AnsTypes = { 129, 137, 139, 147, 198, 160 }
  MaxSend = 7
  MaxUp = 4
  MaxStall = 3
  MaxTick = 2
  SimDepth = 14
CONSTRAINT Emit
INVARIANTS Budget DeferFIFOOnce NotStranded NotStrandedByStall StallSilence SeqConsecutive
CHECK_DEADLOCK FALSE
