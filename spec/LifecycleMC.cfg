SPECIFICATION MCSpec
CONSTANTS LQ = {}
  MaxSess = 3
  MaxEv = 8
  SimDepth = 99
VIEW View
INVARIANTS JoinedOnce NoThreadLeft RunningThreads FreshWhenStopped
CHECK_DEADLOCK FALSE
