"""C02: uplink decoding.  TLC: receiver automaton = declarative decoder over token streams (WireMC receiver config);
V: random streams of valid multi-message packets with interleaved corruption, arbitrary chunking / read gaps, and
the library's own downlink output looped back; validated by TLC against Trace_Uplink (declarative decoder of Bytes)."""
import random, json
from vlib import build, drv, check, tlc, wire, gen_downlink as g

def rand_msg(rng):
    depth = rng.choice([0, 0, 1, 1, 2, 3])
    addr = [rng.randrange(1, 256) for _ in range(depth)]
    ty = rng.choice([0x81, 0x82, 0x84, 0x86, 0x90, 0xa0, 0xa1, 0xa2, 0xa3, 0xb8, 0xc0, 0xe2, 0x93, 0x95, rng.randrange(0x80, 0x100), rng.randrange(0, 0x80)])
    if ty == 0x8e: ty = 0x8f
    n = rng.choice([0, 1, 2, 3, 5, 9, 17, 30, 60])
    mode = rng.random()
    if mode < 0.3: data = [rng.choice([0xfe, 0xfd, 0xde, 0xdd, 0x20, 0]) for _ in range(n)]
    else: data = [rng.randrange(256) for _ in range(n)]
    seq = rng.choice([0, 1, 2, 255, rng.randrange(256)])
    return wire.msg(addr, seq, ty, data)

def corrupt(rng, pk):
    """returns bytes of a corrupted packet whose good-frame status is unambiguous, or None"""
    p = list(pk); k = rng.random()
    if k < 0.3:
        i = rng.randrange(1, len(p) - 1); p[i] ^= 1 << rng.randrange(8)
    elif k < 0.5:
        i = rng.randrange(1, len(p) - 1); del p[i]
    elif k < 0.7:
        i = rng.randrange(1, len(p) - 1); p.insert(i, rng.randrange(256))
    elif k < 0.8:
        p = p[:rng.randrange(2, len(p))]          # truncated: no closing delimiter (the next packet's opening one closes it)
    elif k < 0.88:
        # truncated inside an escape pair: the frame ends with the escape byte, the next packet's delimiter follows at once
        esc = [i for i in range(1, len(p) - 1) if p[i] == 0xFD]
        x = rng.random()
        if x < 0.3: p = [0xFE, 0xFD]                  # nothing but the escape byte between two delimiters
        elif esc and x < 0.7: p = p[:rng.choice(esc) + 1]
        else: p = p[:rng.randrange(2, len(p))] + [0xFD]
    else:
        i = rng.randrange(1, len(p) - 1); p.insert(i, 0xFE)   # stray delimiter inside
    # keep only corruptions that leave no CRC-valid frame with a malformed payload and no improper escape (outside C02)
    for f in wire.decode([0xFE] + p + [0xFE]):
        raw = f["raw"]
        for j, b in enumerate(raw):
            if b == 0xFD and j + 1 < len(raw) and raw[j + 1] == 0xFD: return None
            # an escape byte at the very end of a frame (truncation): unambiguous as long as the rest is not CRC-valid -
            # the frame is dropped and must not disturb the packet that follows
            if b == 0xFD and j + 1 >= len(raw) and _crc_ok(raw): return None
        if f["ok"] is False and _crc_ok(raw): return None
    return p

def _crc_ok(raw):
    p = []; i = 0
    while i < len(raw):
        if raw[i] == 0xFD and i + 1 < len(raw): p.append(raw[i + 1] ^ 0x20); i += 2
        elif raw[i] == 0xFD: i += 1
        else: p.append(raw[i]); i += 1
    return len(p) >= 2 and wire.crc8(p) == 0

def gen_stream_script(rng, sid, npk):
    s = drv.Script(sid)
    s.add("debug 1"); s.add("start ~ 0", {"e": "ureset"})
    # the receiver waits for a first delimiter after start; bytes before it are noise
    if rng.random() < 0.5: pre = [rng.choice([1, 2, 0x55, 0xfd]) for _ in range(rng.randrange(0, 4))]
    else: pre = []
    if pre and pre[-1] == 0xfd: pre[-1] = 0x33
    if pre: s.add("feed " + wire.hexs(pre), {"e": "feed", "b": pre})
    for _ in range(npk):
        msgs = [rand_msg(rng) for _ in range(rng.choice([1, 1, 2, 3, 5]))]
        while sum(len(m) for m in msgs) > 250: msgs.pop()
        pk = wire.packet(msgs)
        r = rng.random()
        if r < 0.3:
            c = corrupt(rng, pk)
            if c is not None: pk = c
        elif r < 0.4:
            pk = [0xFE] * rng.randrange(1, 4) + pk[1:]      # duplicate delimiters
        elif r < 0.5:
            pk = pk[:-1]                                     # shared delimiter with the next packet
        # chunking across feed commands and read gaps inside a chunk
        pos = 0
        while pos < len(pk):
            n = rng.choice([1, 2, 3, 7, len(pk)]); chunk = pk[pos:pos + n]; pos += n
            gaps = sorted(set(rng.randrange(1, len(chunk) + 1) for _ in range(rng.choice([0, 0, 1, 3]))))
            line = "feed " + wire.hexs(chunk) + ((" gaps " + ",".join(str(x) for x in gaps)) if gaps else "")
            s.add(line, {"e": "feed", "b": chunk})
        if rng.random() < 0.4:
            s.add("feed fe", {"e": "feed", "b": [0xFE]})
            s.add("drain", {"e": "drain", "_copy": ["msg", "err", "int"]})
    s.add("feed fe", {"e": "feed", "b": [0xFE]})
    s.add("drain", {"e": "drain", "_copy": ["msg", "err", "int"]})
    s.add("stop")
    return s

def to_events(s, rr):
    ev = drv.to_trace(s, rr)
    out = []
    for e in ev:
        if e["e"] == "drain":
            out.append({"e": "drain", "msgs": [wire.unhex(x) for x in (e.get("msg") or [])], "errs": [wire.unhex(x) for x in (e.get("err") or [])],
                        "ints": [wire.unhex(x) for x in (e.get("int") or [])]})
        else: out.append(e)
    return out

def run(pid, tier):
    ctx = check.Ctx(pid, tier); thorough = tier == "thorough"
    rng = random.Random(ctx.seed * 31337 + 2)
    try: exe = build.build("asan")
    except build.BuildError as ex:
        ctx.infra_fail("build failed: %s" % ex); return ctx.finish()
    cfg = open(tlc.SPEC + "/WireMC_receiver.cfg").read()
    if thorough: cfg = cfg.replace("MaxTok = 4", "MaxTok = 5")
    r = tlc.run("WireMC.tla", "_r.cfg", workers=16, timeout=2400, extra_files={"_r.cfg": cfg}, xmx="16g")
    ctx.add_tlc("Wire receiver automaton = declarative decoder (token streams)", r); tlc.cleanup(r)
    if r.violation or r.error: ctx.infra_fail("WireMC receiver: %s %s" % (r.violation, (r.error or "")[:500]))
    scripts = [gen_stream_script(rng, "u%d" % i, rng.choice([5, 15, 30])) for i in range(300 if thorough else 40)]
    # loopback: what the library's own sender emits is fed to its receiver
    from checks import downlink
    snd = [downlink.gen_c01(rng, "s%d" % i, 30) for i in range(40 if thorough else 8)]
    sres = drv.run(exe, snd, timeout=60)
    for s0 in snd:
        rr = sres.get(s0.sid)
        if not rr or rr.status != "ok": continue
        bs = []
        for outs in rr.out.values():
            for ch in outs[0].get("wire", []): bs += wire.unhex(ch)
        s = drv.Script("lb_" + s0.sid); s.add("debug 1"); s.add("start ~ 0", {"e": "ureset"})
        pos = 0
        while pos < len(bs):
            n = rng.choice([1, 5, 40, 200]); ch = bs[pos:pos + n]; pos += n
            s.add("feed " + wire.hexs(ch), {"e": "feed", "b": ch})
            if rng.random() < 0.2: s.add("drain", {"e": "drain", "_copy": ["msg", "err", "int"]})
        s.add("drain", {"e": "drain", "_copy": ["msg", "err", "int"]}); s.add("stop")
        scripts.append(s)
    res = drv.run(exe, scripts, timeout=60)
    items = []
    for s in scripts:
        rr = res.get(s.sid)
        if rr is None or rr.status != "ok":
            ctx.violation("uplink script %s: process ended with %s (code %s)" % (s.sid, rr.status if rr else "missing", rr.code if rr else "?"),
                          {"kind": "crash", "script": s.text(), "stderr": rr.stderr[-4000:] if rr else ""}); continue
        ev = to_events(s, rr); items.append((s, ev))
        for e in ev:
            ctx.cov["evaluations"] += 1
            if e["e"] == "drain":
                for m in e["msgs"]: ctx.distinct(("msg", len(m), m[-1] if m else 0))
    rej = check.validate_scripts(ctx, "Trace_Uplink.tla", "Trace_Uplink.cfg", items, timeout=900)
    for s, ev, k, r in rej:
        ctx.violation("uplink execution %s: event %d %s refused by the declarative decoder" % (s.sid, k, json.dumps(ev[k])[:300] if k < len(ev) else "(end)"),
                      {"kind": "trace", "module": "Trace_Uplink.tla", "cfg": "Trace_Uplink.cfg", "script": s.text(), "events": ev, "refused_at": k, "regen": {"kind": "uplink_templates", "templates": s.events}})
    for s, ev in items[:2]: ctx.sample({"script": s.sid, "events": ev[:6]})
    ctx.cov["rule"] = "cases = feed/drain events; distinct = distinct (message length, last byte) of delivered messages"
    ctx.assumptions += ["debug mode (every message but MSG_STALL surfaces); corruptions that yield a CRC-valid frame with a malformed payload or a doubled escape byte are C12's domain and are not generated; a frame truncated inside an escape pair is generated (dropped, next packet intact)"]
    return ctx.finish()
