#ifndef VDRV_H
#define VDRV_H
#include <stdio.h>
#include <stdint.h>
#include <stdbool.h>
#include <stddef.h>

#include "../../repo/include/bidib.h"

/* internal-but-extern symbols of the library (not in the public headers) */
extern void bidib_set_lowlevel_debug_mode(bool on);
extern uint8_t *bidib_read_intern_message(void);
extern volatile bool bidib_running;
extern volatile bool bidib_discard_rx;
extern volatile bool bidib_seq_num_enabled;
extern volatile bool bidib_lowlevel_debug_mode;
extern const int bidib_response_info[0x80][5];

/* vdrv.c */
extern __thread FILE *vout;
extern FILE *vout_real;
void out_raw(const char *s);
void out_lock(void);
void out_unlock(void);
void out_hex(const uint8_t *b, size_t n);
void out_str(const char *s);
void out_wire(void);
int hexval(int c);
int parse_hex(const char *s, uint8_t *dst, int max);
void up_feed(const uint8_t *b, size_t n);
bool rx_wait_idle(int max_ms);
bool up_pending(void);
void vt_register_script_thread(void);
void vt_advance_us(uint64_t us);
uint64_t vt_now_us(void);
bool exec_line(char *line, int lineno, int thr);
const char *script_line(size_t i);

/* bus.c */
void bus_config(int n, char **tok);
void bus_session_begin(void);
void bus_downlink(const uint8_t *b, size_t n);

/* ll_gen.c (generated) */
int ll_call(const char *fn, int n, char **tok);

/* hl.c */
long hl_call(const char *fn, int n, char **tok);

/* proj.c */
void proj_all(void);
void proj_get(const char *fn, int n, char **tok);
void proj_bundle(const char *what, int k);

/* wrap.c */
bool sched_hook_usleep(unsigned us);
void sched_point(const char *what);
bool sched_active(void);
void out_thr(void);
void out_locks(void);
void lock_trace_enable(bool on);
void conc_run(char **lines, size_t nlines, int lineno);
unsigned long sched_stamp(void);
void sched_log_write(const uint8_t *b, size_t n);

#endif
