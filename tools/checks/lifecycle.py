"""C16: lifecycle.  TLC: LifecycleMC (all session sequences, bounded; quirk models must violate).  Real library:
(A) session sequences (every pair / triple of session kinds, stop while stopped, start while running) with the
    pthread_create / pthread_join bookkeeping and the globals compared by TLC (Trace_Lifecycle), LSan at the end;
(B) several normal-mode sessions in one process with different configurations, activity, capacity announcements and
    bidib_stop, validated by Trace_Track (same specification for every session, shutdown transcript = Track.StopCmds)."""
import random, os, json, shutil, tempfile, zlib, itertools, re
from vlib import build, drv, check, tlc, wire, cfg as cfgmod, gen_track as g
from checks import track, track_mc

KINDS = [(c, d, f, w) for c in ("ok", "bad", "none") for d in (True, False) for f in (True, False) for w in (True, False)]

def lifecycle_script(sid, seq, okdir, baddir, uid0, leak=True, busy=False):
    """seq: list of ('start', cfg, debug, flush, works) | ('stop',)"""
    s = drv.Script(sid); ev = []
    s.add("bus clear"); s.add("bus on"); s.add("bus node 00 00 00 " + "".join("%02x" % x for x in uid0))
    ev.append((None, {"e": "proc"}))
    for st in seq:
        if st[0] == "start":
            _, c, d, f, w = st
            s.add("bus silent %d" % (0 if w else 1)); s.add("debug %d" % (1 if d else 0))
            bd = baddir if isinstance(baddir, str) else baddir[len(s.lines) % len(baddir)]      # the kinds of rejected configuration in turn
            i = len(s.lines); s.add("start %s %d" % ({"ok": okdir, "bad": bd, "none": "~"}[c], 5 if f else 0))
            j = len(s.lines); s.add("globals")
            if busy:                                   # leave work behind: exhausted budget, held messages, a stalled node, queued uplink
                for k in range(11): s.add("ll bidib_send_sys_get_magic 01 00 00")
                s.add("feed " + wire.hexs(wire.packet([wire.msg([2], 0, 0x8e, [1])])))
                for k in range(3): s.add("ll bidib_send_sys_ping 02 00 00 %02x" % k)
                s.add("feed " + wire.hexs(wire.packet([wire.msg([1], 0, 0x82, [k]) for k in range(5)])))
            ev.append(((i, j), {"e": "start", "cfg": c, "debug": d, "flush": f, "works": w}))
        elif st[0] == "startserial":
            # the serial entry point with a device that does not exist / no device at all
            _, dev, c = st
            i = len(s.lines); s.add("startserial %s %s 0" % ("/nonexistent/ttyBiDiB" if dev == "missing" else "~", {"ok": okdir, "bad": baddir if isinstance(baddir, str) else baddir[0]}[c]))
            ev.append(((i, None), {"e": "startserial", "dev": dev, "cfg": c}))
        else:
            i = len(s.lines); s.add("stop"); ev.append(((i, None), {"e": "stop"}))
    k = len(s.lines); s.add("stop"); ev.append(((k, None), {"e": "stop"}))
    lk = len(s.lines)
    if leak: s.add("leakcheck")
    else: s.add("note noleakcheck")
    return s, ev, lk

def thr_of(o):
    t = o.get("thr", {}); return {"created": t.get("created", -1), "joined": t.get("joined", -1), "stale": t.get("stale_joins", -1), "live": t.get("live", -1)}

def run(pid, tier):
    ctx = check.Ctx(pid, tier); thorough = tier == "thorough"
    rng = random.Random(ctx.seed * 15485863 + 16)
    try: exe = build.build("asan")
    except build.BuildError as ex:
        ctx.infra_fail("library/driver build failed: %s" % ex); return ctx.finish()
    tmp = tempfile.mkdtemp(prefix="vlc_", dir=check.TMP)
    try: return _run(ctx, thorough, rng, exe, tmp)
    finally: shutil.rmtree(tmp, ignore_errors=True)

def _run(ctx, thorough, rng, exe, tmp):
    # ---- 1. the model and its quirk variants (non-vacuity: the pinned code's behaviour must violate)
    base = open(os.path.join(tlc.SPEC, "LifecycleMC.cfg")).read()
    if thorough: base = base.replace("MaxSess = 3", "MaxSess = 4").replace("MaxEv = 8", "MaxEv = 10")
    for q, expect in (("{}", None), ('{"StaleHandles"}', "JoinedOnce"), ('{"StickyGlobals"}', "FreshWhenStopped")):
        r = tlc.run("LifecycleMC.tla", "_l.cfg", workers=8, timeout=900, extra_files={"_l.cfg": base.replace("LQ = {}", "LQ = " + q)})
        ctx.add_tlc("LifecycleMC LQ=" + q, r, note="must violate " + expect if expect else "all session sequences"); tlc.cleanup(r)
        if r.error: ctx.infra_fail("LifecycleMC: " + r.error[:600])
        elif r.violation != expect: ctx.infra_fail("LifecycleMC LQ=%s: expected %s, got %s" % (q, expect, r.violation))
    # ---- 2. (A) session sequences on the real library
    okcfg = cfgmod.state_tests_like(); okdir = cfgmod.write(okcfg, os.path.join(tmp, "ok"))
    # rejected configurations: noticed in the board file (nothing read yet), in the track file, or only in the train file
    # (boards and track are read by then: a track output can be switched on before the start fails)
    badcfg = cfgmod.state_tests_like(); badcfg["boards"].append(dict(badcfg["boards"][0])); bad1 = cfgmod.write(badcfg, os.path.join(tmp, "bad"))
    badcfg = cfgmod.state_tests_like(); badcfg["trains"][1]["steps"] = 27; bad2 = cfgmod.write(badcfg, os.path.join(tmp, "bad2"))
    badcfg = cfgmod.state_tests_like(); badcfg["track"][0]["seg"][1]["addr"] = badcfg["track"][0]["seg"][0]["addr"]; bad3 = cfgmod.write(badcfg, os.path.join(tmp, "bad3"))
    baddir = [bad1, bad2, bad3]
    uid0 = okcfg["boards"][0]["uid"]
    seqs = []
    for a in KINDS:
        for b in (KINDS if thorough else rng.sample(KINDS, 5)):
            seqs.append([("start",) + a, ("stop",), ("start",) + b])
    for a in KINDS:          # start while running, stop while stopped
        seqs.append([("start",) + a, ("start",) + rng.choice(KINDS), ("stop",), ("stop",), ("start",) + rng.choice(KINDS)])
    SER = [("startserial", d, c) for d in ("missing", "null") for c in ("ok", "bad")]
    for a in SER:            # the serial entry point fails (no such device): before, between and after ordinary sessions, while running
        for b in (KINDS if thorough else rng.sample(KINDS, 3)):
            seqs.append([a, ("start",) + b, ("stop",), a, ("start",) + b, a, ("stop",), a])
    n3 = 600 if thorough else 60
    for _ in range(n3):
        k = rng.choice([3, 4, 5]); sq = []
        for _ in range(k):
            if rng.random() < 0.15: sq.append(rng.choice(SER))
            sq.append(("start",) + rng.choice(KINDS))
            if rng.random() < 0.8: sq.append(("stop",))
        seqs.append(sq)
    scripts = []; meta = {}
    for i, sq in enumerate(seqs):
        s, ev, lk = lifecycle_script("lc%d" % i, sq, okdir, baddir, uid0, leak=(thorough or i % 6 == 0), busy=(i % 3 == 0)); scripts.append(s); meta[s.sid] = (s, ev, lk, sq)
    res = drv.run(exe, scripts, timeout=60)
    events = []; bounds = []
    for s in scripts:
        _, ev, lk, sq = meta[s.sid]; rr = res.get(s.sid)
        if rr is None or rr.status != "ok":
            ctx.violation("session sequence %s: process ended with %s (code %s)" % (json.dumps(sq), rr.status if rr else "missing", rr.code if rr else "?"),
                          {"kind": "crash", "script": s.text(), "stderr": rr.stderr[-4000:] if rr else ""}); continue
        out = []
        for idx, tmpl in ev:
            e = dict(tmpl)
            if idx is not None:
                o = rr.out.get(idx[0], [{}])[0]
                e["running"] = bool(o.get("running")); e["thr"] = thr_of(o)
                if e["e"] == "startserial": e["ret"] = o.get("ret")
                if e["e"] == "start":
                    e["w"] = []
                    for ch in o.get("wire", []): e["w"] += wire.unhex(ch)
                    e["ret"] = o.get("ret"); gl = rr.out.get(idx[1], [{}])[0]
                    e["seq"] = bool(gl.get("seq_enabled")); e["discard"] = bool(gl.get("discard_rx"))
            out.append(e)
        leaks = rr.out.get(lk, [{}])[0].get("leaks")
        if leaks not in (0, None):
            ctx.violation("session sequence %s: LeakSanitizer reports memory that bidib_stop did not release" % json.dumps(sq),
                          {"kind": "leak", "script": s.text(), "stderr": rr.stderr[-6000:]})
        bounds.append((len(events), s, sq)); events += out
        ctx.cov["evaluations"] += len(out)
        for a, b in zip(sq, sq[1:] + [("end",)]): ctx.distinct((a, b[0]))
    acc, consumed, r = check.validate("Trace_Lifecycle.tla", "Trace_Lifecycle.cfg", events, timeout=1200); tlc.cleanup(r)
    tries = 0
    while not acc and tries < 10:
        if r.error and not r.violation: ctx.infra_fail("Trace_Lifecycle: " + r.error[:800]); break
        k = max(i for i, (st, _, _) in enumerate(bounds) if st <= consumed)
        st, s, sq = bounds[k]
        ctx.violation("session sequence %s is not a behaviour of Lifecycle: event %s refused%s" % (
            json.dumps(sq), json.dumps(events[consumed])[:300] if consumed < len(events) else "(end)", " / invariant %s" % r.violation if r.violation else ""),
            {"kind": "trace", "module": "Trace_Lifecycle.tla", "cfg": "Trace_Lifecycle.cfg", "script": s.text(), "events": events[st:(bounds[k + 1][0] if k + 1 < len(bounds) else len(events))]})
        nxt = bounds[k + 1][0] if k + 1 < len(bounds) else len(events)
        events = events[nxt:]; bounds = [(a - nxt, b, c) for a, b, c in bounds[k + 1:]]
        if not events: acc = True; break
        acc, consumed, r = check.validate("Trace_Lifecycle.tla", "Trace_Lifecycle.cfg", events, timeout=1200); tlc.cleanup(r); tries += 1
    ctx.cov["traces_validated_against_impl"] += len(scripts)
    ctx.cov["session_sequences"] = len(scripts)
    # ---- 3. (B) several normal-mode sessions in one process, same specification for each (behaves as in the first)
    multi = []
    for i in range(24 if thorough else 5):
        first = None; chain = []
        for k in range(rng.choice([2, 3])):
            c = cfgmod.gen(rng, nboards=rng.choice([1, 2, 3]), ntrains=rng.choice([0, 1, 2, 3]))
            s = g.Session("ms%d" % i, c, os.path.join(tmp, "ms%d_%d" % (i, k)), full=True, flush_ms=rng.choice([0, 0, 50]), script=first.s if first else None)
            if first is None: first = s
            for _ in range(rng.choice([6, 12, 20])):
                x = rng.random()
                if x < 0.5: s.up(*g.rand_uplink(rng, s))
                elif x < 0.9:
                    fn, sa, iv = g.rand_command(rng, s); s.hl(fn, sa, iv)
                else: s.up([], 0x8a, [rng.choice([32, 100, 200])])          # the interface announces a packet capacity
            if rng.random() < 0.5: s.flush()
            if rng.random() < 0.5: s.tick(3)
            else:                                      # stop with an exhausted budget and held messages
                for b in [x["id"] for x in c["boards"]][:2]:
                    for k in range(12): s.hl("bidib_ping", [b], k)
            s.stop(); chain.append(s)
        chain[-1].s.add("leakcheck")
        multi.append(chain)
    res = drv.run(exe, [ch[0].s for ch in multi], timeout=120)
    items = []
    for ch in multi:
        rr = res.get(ch[0].sid)
        if rr is None or rr.status != "ok":
            ctx.violation("multi-session script %s: process ended with %s" % (ch[0].sid, rr.status if rr else "missing"),
                          {"kind": "crash", "script": ch[0].s.text(), "stderr": rr.stderr[-4000:] if rr else ""}); continue
        lk = [o[0] for o in rr.out.values() if o and o[0].get("op") == "leakcheck"]
        if lk and lk[0].get("leaks") not in (0, None):
            ctx.violation("multi-session script %s: LeakSanitizer reports memory that bidib_stop did not release" % ch[0].sid,
                          {"kind": "leak", "script": ch[0].s.text(), "stderr": rr.stderr[-6000:]})
        evs = []; bad = False
        for s in ch:
            ev, probs = g.to_events(s, rr)
            if probs: ctx.note("%s skipped: %s" % (s.sid, probs)); bad = True; break
            evs += ev
        if not bad: items.append((ch[0], evs)); ctx.cov["evaluations"] += len(evs)
    cfgtext, _, _ = check.quirk_cfg("Trace_Track.cfg", "C16")
    rej = check.validate_scripts(ctx, "Trace_Track.tla", "_tl.cfg", items, timeout=1800, batch=6, extra_files={"_tl.cfg": cfgtext})
    for s, ev, k, r in rej:
        e = ev[k] if k < len(ev) else {}
        ctx.violation("multi-session execution %s is not a behaviour of the specification: event %d %s refused%s" % (
            s.sid, k, json.dumps({x: e[x] for x in e if x not in ("st", "cfg")})[:400], " / invariant %s" % r.violation if r.violation else ""),
            {"kind": "trace", "module": "Trace_Track.tla", "cfg": "Trace_Track.cfg", "script": s.s.text(), "events": ev, "refused_at": k})
    ctx.sample({"session_sequence": seqs[5], "events": events[:0]}); ctx.sample({"session_sequence": seqs[-1]})
    ctx.cov["rule"] = ("cases = start / stop events of session sequences executed in one process (all pairs of the 24 session kinds, plus random longer "
                       "sequences) and events of multi-session normal-mode scripts; distinct = distinct (event, next event) pairs of session kinds")
    ctx.assumptions += ["thread creation / joins observed through link-time wrappers of pthread_create / pthread_join; a join of a non-live handle is recorded, not executed",
                        "memory release is decided by LeakSanitizer (auxiliary detector)", "virtual time"]
    return ctx.finish()
