"""C15 C20: node table and start-up.  Boot sessions (bus simulator answers everything): the decoded start transcript is
checked by TLC against Track.BootOk (features to their own connected board before the enable, track outputs on, initial
values exactly once with the C09 encoding, nothing for absent boards) and the connectivity / addresses reported by the
getters against Track.PathsOf(tree).  C15 additionally runs sessions with node-new / node-lost notices followed by
commands (Track.Up / Cmd through Trace_Track)."""
import random, os, json, shutil, tempfile, zlib
from vlib import build, drv, check, tlc, cfg as cfgmod, gen_track as g
from checks import track, track_mc

def gen_tree(rng, cfg, deep=False):
    """(tree, opts): nodes [(path, uid)], with nested interfaces, unknown nodes, absent boards"""
    boards = cfg["boards"]; tree = []; used = set()
    def unk(iface=False): return [(0x80 if iface else 0x00) | rng.choice([0, 1, 0x40]), rng.randrange(256), 0x0d] + [rng.randrange(256) for _ in range(4)]
    present = [b for b in boards if rng.random() < 0.8]
    # root: first present interface-class board, or an unknown interface
    root = next((b for b in present if b["uid"][0] & 0x80), None)
    tree.append(([], root["uid"] if root and rng.random() < 0.85 else unk(True)))
    if root and tree[0][1] is root["uid"]: present.remove(root)
    ifaces = [[]]                      # addresses under which further nodes may hang
    local = {}                         # next local address per interface
    def place(u):
        par = max(ifaces, key=len) if deep and rng.random() < 0.6 else rng.choice(ifaces); k = tuple(par)
        local[k] = local.get(k, 0) + rng.choice([1, 1, 2, 7])
        if local[k] > 250: return
        p = par + [local[k]]
        tree.append((p, u))
        if u[0] & 0x80 and len(p) < 3: ifaces.append(p)
        elif u[0] & 0x80 and len(p) == 3: pass
    if deep:                                    # interfaces first so that something can hang below them
        present.sort(key=lambda b: -(b["uid"][0] & 0x80))
        place(unk(True))
    for b in present: place(b["uid"])
    for _ in range(rng.choice([0, 0, 1, 2])): place(unk(rng.random() < 0.4))
    # a node below a non-interface node (unreachable) now and then
    plain = [p for p, u in tree if not (u[0] & 0x80) and 0 < len(p) < 3]
    if plain and rng.random() < 0.15: tree.append((rng.choice(plain) + [5], unk()))
    opts = []
    if rng.random() < 0.3: opts.append("featother %d" % rng.randrange(256))
    if rng.random() < 0.35: opts.append("tablechange %d" % rng.randrange(1, 2 + len(tree)))
    return tree, opts

def gen_cfg(rng):
    c = cfgmod.gen(rng, nboards=rng.choice([1, 2, 3, 4]), ntrains=rng.choice([0, 1, 2, 3]))
    # more interfaces so that nesting happens
    for b in c["boards"][1:]:
        if rng.random() < 0.35: b["uid"][0] |= 0x80
    return c

def run(pid, tier):
    ctx = check.Ctx(pid, tier); thorough = tier == "thorough"
    rng = random.Random(ctx.seed * 104729 + zlib.crc32(pid.encode()) % 1000)
    try: exe = build.build("asan")
    except build.BuildError as ex:
        ctx.infra_fail("library/driver build failed: %s" % ex); return ctx.finish()
    tmp = tempfile.mkdtemp(prefix="vboot_", dir=check.TMP)
    try: return _run(ctx, pid, thorough, rng, exe, tmp)
    finally: shutil.rmtree(tmp, ignore_errors=True)

def _run(ctx, pid, thorough, rng, exe, tmp):
    track_mc.model_check(ctx, pid, thorough)
    sessions = []
    # the model configuration with its tree, then generated configurations x trees
    sessions.append(g.Session("bootmc", track_mc.MC_CFG, os.path.join(tmp, "bootmc"), paths=dict(track_mc.MC_PATHS), boot=True, reboot=True).end())
    for i in range(120 if thorough else 24):
        c = gen_cfg(rng); tree, opts = gen_tree(rng, c, deep=(i % 3 == 0))
        # sessions with a second reset: mostly with nodes that answer a feature setting with another value (what the
        # nodes answered must not change what is sent the second time)
        if i % 2 == 1 and not any(o.startswith("featother") for o in opts) and rng.random() < 0.7: opts.append("featother %d" % rng.randrange(256))
        sessions.append(g.Session("boot%d" % i, c, os.path.join(tmp, "boot%d" % i), tree=tree, boot=True, bus_opts=opts, reboot=(i % 2 == 1)).end())
    # several track outputs of which any subset is absent, trains with initial functions: "every initial train function once per
    # CONNECTED track output" must not depend on where the absent ones are listed
    for i in range(24 if thorough else 6):
        c = cfgmod.gen(rng, nboards=rng.choice([3, 4]), ntrains=rng.choice([1, 2]))
        for b in c["boards"][1:]: b["uid"][0] = (b["uid"][0] & 0x6D) | 0x10            # track-output class, not an interface
        for t in c["trains"]:
            if not any(p.get("initial") is not None for p in t["per"]):
                t["per"].append({"id": "fi_%s" % t["id"], "bit": next(b for b in range(32) if b not in [p["bit"] for p in t["per"]] and b not in (5, 6, 7)), "initial": 1})
        tos = [b for b in c["boards"][1:]]
        absent = set(b["id"] for b in tos if rng.random() < 0.5)
        if len(absent) == len(tos): absent.discard(tos[-1]["id"])
        if not absent: absent.add(tos[0]["id"])
        tree = [([], c["boards"][0]["uid"])] + [([k + 1], b["uid"]) for k, b in enumerate(tos) if b["id"] not in absent]
        sessions.append(g.Session("bootto%d" % i, c, os.path.join(tmp, "bootto%d" % i), tree=tree, boot=True, reboot=(i % 2 == 0)).end())
    if pid == "C15":
        # dynamic part: notices + commands in drained sessions (state compared after every event)
        for i in range(40 if thorough else 8):
            c = gen_cfg(rng); tree, _ = gen_tree(rng, c, deep=(i % 2 == 0))
            if i % 4 == 1:
                # a chain: interface below the root, a second interface below it, configured boards at the third level
                c = cfgmod.gen(rng, nboards=4, ntrains=rng.choice([0, 1]))
                c["boards"][1]["uid"][0] |= 0x80; c["boards"][2]["uid"][0] |= 0x80
                tree = [([], c["boards"][0]["uid"]), ([1], c["boards"][1]["uid"]), ([1, 1], c["boards"][2]["uid"]), ([1, 1, 1], c["boards"][3]["uid"]),
                        ([1, 1, 2], [0x00, rng.randrange(256), 0x0d, 1, 2, 3, 4])]
            s = g.Session("nt%d" % i, c, os.path.join(tmp, "nt%d" % i), tree=tree, full=True); s.nodetab_events = 0.45
            s.lists()
            def lose_top():
                # loss of an interface that has nodes two levels below it: everything beneath it goes, not only its children
                cfg_uids = {tuple(b["uid"]) for b in c["boards"]}
                tops = [(p, u) for p, u in s.tree if len(p) == 1 and tuple(u) in cfg_uids and any(len(q) == 3 and q[:1] == p and tuple(v) in cfg_uids for q, v in s.tree)]
                if tops:
                    p, u = rng.choice(tops)
                    s.up([], 0x8c, [rng.randrange(1, 255), p[0]] + list(u)); s.lists()
                    where = getattr(s, "_where", None)                      # the generator's picture of the bus (gen_track.rand_uplink)
                    if where is None: where = {tuple(uu): list(pp) for pp, uu in s.tree}; s._where = where
                    for k in [k for k, pp in where.items() if pp[:1] == p]: del where[k]
                    for _ in range(4):
                        fn, sa, iv = g.rand_command(rng, s); s.hl(fn, sa, iv)
            if i % 4 == 1: lose_top()                  # chain trees: first thing, while everything is still connected
            for _ in range(40):
                if rng.random() < 0.6: s.up(*g.rand_uplink(rng, s))
                else:
                    fn, sa, iv = g.rand_command(rng, s); s.hl(fn, sa, iv)
                if rng.random() < 0.25: s.lists()          # connected-entity lists follow the node-table notices
            if i % 4 != 1: lose_top()
            s.flush(); sessions.append(s.end())
    res = drv.run(exe, [s.s for s in sessions], timeout=120)
    items = []
    for s in sessions:
        rr = res.get(s.sid)
        if rr is None or rr.status != "ok":
            ctx.violation("session %s: library process ended with %s (code %s) during start-up against tree %s" % (
                s.sid, rr.status if rr else "missing", rr.code if rr else "?", json.dumps(s.tree)[:300]),
                {"kind": "crash", "script": s.s.text(), "config": s.cfg, "tree": s.tree, "stderr": rr.stderr[-4000:] if rr else ""}); continue
        ev, probs = g.to_events(s, rr)
        if probs:
            ctx.note("session %s skipped: %s" % (s.sid, "; ".join(probs))); ctx.cov["skipped_sessions"] = ctx.cov.get("skipped_sessions", 0) + 1; continue
        items.append((s, ev))
        for e in ev:
            ctx.cov["evaluations"] += 1
            if e["e"] == "start": tr = e["tree"]; nb = len(e["cfg"]["boards"])
            elif e["e"] == "boot":
                nconn = sum(1 for b in e["conn"].values() if b["conn"])
                ctx.distinct(("boot", len(tr), max([len(x["p"]) for x in tr] + [0]), nconn, nb))
            else: ctx.distinct(track.classify(e))
    cfgtext, _, _ = check.quirk_cfg("Trace_Track.cfg", pid)
    rej = check.validate_scripts(ctx, "Trace_Track.tla", "_tb.cfg", items, timeout=1800, batch=12, extra_files={"_tb.cfg": cfgtext})
    for s, ev, k, r in rej:
        e = ev[k] if k < len(ev) else {}
        what = "execution %s is not a behaviour of the specification: event %d %s refused%s" % (
            s.sid, k, json.dumps({x: e[x] for x in e if x not in ("st", "cfg", "w")})[:500], (" / invariant %s violated" % r.violation) if r.violation else "")
        ctx.violation(what, {"kind": "trace", "module": "Trace_Track.tla", "cfg": "Trace_Track.cfg", "script": s.s.text(), "config": s.cfg, "tree": s.tree, "regen": s.meta(),
                             "events": ev, "refused_at": k})
    for s, ev in items[:3]:
        ctx.sample({"session": s.sid, "tree": s.tree, "boards": [b["id"] for b in s.cfg["boards"]], "connected": {b: v["addr"] for e in ev if e["e"] == "boot" for b, v in e["conn"].items() if v["conn"]}})
    ctx.cov["rule"] = ("cases = start-ups (and, C15, node-table notices / commands) executed on the real library against generated configurations x bus trees; "
                       "distinct = distinct (tree size, depth, number of connected boards, number of configured boards) tuples and event classes")
    ctx.assumptions += ["boot sessions: bus simulator answers every request at once; at most 3 trains so that the start-up never exceeds a node's response budget (order constraints are stated on the wire)",
                        "duplicate unique ids in one tree are not generated"]
    return ctx.finish()
