"""Run scripts through vdrv and pair the raw output with the event templates."""
import json, os, subprocess, tempfile
from . import wire

class Script:
    def __init__(self, sid):
        self.sid = sid; self.lines = []; self.events = []
    def add(self, line, ev=None):
        self.lines.append(line); self.events.append(ev); return self
    def text(self):
        return "begin %s\n%s\nend\n" % (self.sid, "\n".join(self.lines))

class Result:
    def __init__(self, sid):
        self.sid = sid; self.status = "missing"; self.code = 0; self.out = {}; self.stderr = ""

def run(exe, scripts, timeout=60, env=None, valgrind=False):
    """scripts: list of Script. returns dict sid -> Result"""
    tmpd = tempfile.mkdtemp(prefix="vdrv_", dir=os.environ.get("VERIF_TMP", "/tmp"))
    path = os.path.join(tmpd, "s.txt")
    with open(path, "w") as f:
        for s in scripts: f.write(s.text())
    e = dict(os.environ)
    e.setdefault("ASAN_OPTIONS", "exitcode=77:detect_leaks=1:abort_on_error=0:allocator_may_return_null=1")
    e.setdefault("UBSAN_OPTIONS", "print_stacktrace=1:halt_on_error=1:exitcode=78")
    e.setdefault("LSAN_OPTIONS", "exitcode=0")
    if env: e.update(env)
    cmd = [exe, path, "--timeout", str(timeout), "--errdir", tmpd]
    if valgrind:
        cmd = ["valgrind", "-q", "--error-exitcode=79", "--track-origins=yes", "--child-silent-after-fork=no", "--num-callers=12"] + cmd
    errp = os.path.join(tmpd, "err.txt")
    with open(errp, "w") as ef:
        p = subprocess.run(cmd, stdout=subprocess.PIPE, stderr=ef, env=e)
    res = {}; cur = None
    for ln in p.stdout.decode(errors="replace").splitlines():
        try: j = json.loads(ln)
        except Exception: continue
        if "begin" in j: cur = Result(j["begin"]); res[cur.sid] = cur
        elif "end" in j:
            if cur: cur.status = j["status"]; cur.code = j["code"]
            cur = None
        elif cur is not None and "i" in j:
            cur.out.setdefault(j["i"], []).append(j)
    for r in res.values():
        ep = os.path.join(tmpd, r.sid + ".err")
        if os.path.exists(ep): r.stderr = open(ep, errors="replace").read()[-20000:]
    try: gl = open(errp, errors="replace").read()[-60000:]
    except Exception: gl = ""
    for r in res.values(): r.global_stderr = gl
    import shutil; shutil.rmtree(tmpd, ignore_errors=True)
    return res

def wire_bytes(o):
    bs = []
    for ch in o.get("wire", []): bs += wire.unhex(ch)
    return bs

def to_trace(script, result):
    """list of ndjson events: template + observed fields. Stops at the first line without output (crash)."""
    evs = []
    for i, ev in enumerate(script.events):
        if ev is None: continue
        outs = result.out.get(i)
        if not outs: break
        o = outs[0]
        e = dict(ev)
        if "w" in e or e.get("e") in ("ll", "up", "tick", "flush", "hl", "start", "stop"):
            e["w"] = wire_bytes(o)
        for k in e.get("_copy", []):
            e[k] = o.get(k)
        e.pop("_copy", None)
        evs.append(e)
    return evs
