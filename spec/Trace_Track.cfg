SPECIFICATION TSpec
CONSTANTS Q = {}
  TQ = {}
INVARIANTS Budget DeferFIFOOnce StallSilence SeqConsecutive TrainsAgree
POSTCONDITION TraceAccepted
CHECK_DEADLOCK FALSE
