"""C12: no received byte stream causes an out-of-bounds access, a crash or a stuck receiver.
Fault enumeration from the specification: RxFaultMC.tla derives the fault classes from the framing rules (Bytes) and from
what every message type needs to be interpreted (Track!MinData and the dispatcher's fixed-offset fields); TLC prints one
instance per class member.  Each instance is fed to the real receiver (ASan + UBSan build) in debug mode and in normal
mode (configured / unknown sender), followed by a well-formed probe packet; Trace_Fault (TLC) requires the probe to be
processed and the process to be alive.  Thorough: additionally seeded random mutations of valid traffic."""
import random, os, json, re, shutil, tempfile
from vlib import build, drv, check, tlc, wire, cfg as cfgmod, gen_track as g
from checks import track_mc

def cases_from_spec(ctx):
    r = tlc.run("RxFaultMC.tla", "RxFaultMC.cfg", workers=1, timeout=900)
    cs = [json.loads(x.replace('\\"', '"')) for x in re.findall(r'"CASE", "(.*)"', r.out)]
    ctx.add_tlc("RxFaultMC (fault classes enumerated from the specification: %d instances)" % len(cs), r); tlc.cleanup(r)
    ctx.cov["states"] += len(cs); ctx.cov["transitions"] += len(cs)
    if r.error or not cs: ctx.infra_fail("RxFaultMC: " + (r.error or "no cases")[:600])
    return cs

def mutate(rng, base):
    b = list(base); k = rng.random()
    if k < 0.3: b[rng.randrange(len(b))] ^= 1 << rng.randrange(8)
    elif k < 0.5: del b[rng.randrange(len(b))]
    elif k < 0.7: b.insert(rng.randrange(len(b)), rng.randrange(256))
    elif k < 0.85: b = b[:rng.randrange(1, len(b))]
    else:
        i = rng.randrange(len(b)); b[i:i] = [rng.choice([0xFE, 0xFD, 0, 255])] * rng.choice([1, 2, 40])
    # repair the CRC now and then so that the damage reaches the dispatcher
    if rng.random() < 0.6 and len(b) > 3:
        body = [x for x in b if x != 0xFE]
        pay = []; i = 0
        while i < len(body):
            if body[i] == 0xFD and i + 1 < len(body): pay.append(body[i + 1] ^ 0x20); i += 2
            else: pay.append(body[i]); i += 1
        if len(pay) > 1: b = wire.packet([pay[:-1]])
    return b

class Batch:
    def __init__(self, sid, mode, cfgdir):
        self.sid = sid; self.mode = mode; self.items = []      # (case, feed line idx list, drain idx)
        s = drv.Script(sid); self.s = s
        if mode == "debug":
            s.add("debug 1"); s.add("start ~ 0")
        else:
            sess = g.Session(sid, track_mc.MC_CFG, cfgdir, paths=dict(track_mc.MC_PATHS), boot=True); self.s = s = sess.s
    def add(self, case, idx):
        s = self.s; b = case["b"]
        for off in range(0, max(len(b), 1), 3000):
            if b[off:off + 3000]: s.add("feed " + wire.hexs(b[off:off + 3000]))
        probe = wire.msg([], 0, 0x82, [idx & 255, (idx >> 8) & 255])
        s.add("feed " + wire.hexs(wire.packet([probe])))
        d = len(s.lines); s.add("drain")
        self.items.append((case, idx, probe, d))
    def end(self):
        self.s.add("globals"); self.s.add("stop"); return self

def run(pid, tier):
    ctx = check.Ctx(pid, tier, level="fault_enumeration"); thorough = tier == "thorough"
    rng = random.Random(ctx.seed * 48271 + 12)
    try: exe = build.build("asan")
    except build.BuildError as ex:
        ctx.infra_fail("library/driver build failed: %s" % ex); return ctx.finish()
    tmp = tempfile.mkdtemp(prefix="vflt_", dir=check.TMP)
    try: return _run(ctx, thorough, rng, exe, tmp)
    finally: shutil.rmtree(tmp, ignore_errors=True)

def _run(ctx, thorough, rng, exe, tmp):
    cases = cases_from_spec(ctx)
    if thorough or True:
        # mutated captures of valid traffic (seeded): V part
        valid = [wire.packet([wire.msg(n, 0, ty, d)]) for n, ty, d in
                 [([1], 0xa0, [1]), ([1], 0xa3, [0, 35, 1, 2, 3]), ([], 0xb2, [0, 10, 1, 120, 2, 30]), ([1], 0x93, [2, 51, 48, 1, 51]), ([], 0xe5, [35, 1, 2, 3, 130, 1, 0, 0, 0]),
                  ([1], 0xb8, [2, 1, 2, 0, 0]), ([], 0x8d, [1, 5, 64, 0, 13, 5, 6, 7, 8]), ([1], 0xa2, [0, 16, 3, 0]), ([], 0x86, [1, 0, 0]), ([1], 0xc0, [35, 1, 1])]]
        for i in range(6000 if thorough else 600):
            base = rng.choice(valid)
            if rng.random() < 0.3: base = base + rng.choice(valid)
            cases.append({"cls": "mutant", "what": "mutation %d of valid traffic" % i, "b": mutate(rng, base)})
    batches = []
    for mode in ("debug", "normal"):
        for bi in range(0, len(cases), 25):
            b = Batch("%s%d" % (mode[0], bi // 25), mode, os.path.join(tmp, "cfg_%s_%d" % (mode, bi // 25)))
            for k, c in enumerate(cases[bi:bi + 25]): b.add(c, bi + k)
            batches.append(b.end())
    res = drv.run(exe, [b.s for b in batches], timeout=60)
    events = []; crashed = []
    def collect(b, rr):
        alive = 1 if rr.status == "ok" else 0
        for case, idx, probe, d in b.items:
            o = rr.out.get(d)
            if not o:
                return False
            msgs = [wire.unhex(x) for x in o[0].get("msg", [])]
            events.append({"e": "case", "cls": case["cls"], "what": case["what"], "mode": b.mode})
            events.append({"e": "probe", "raw": probe, "msgs": msgs, "alive": alive, "_case": case, "_mode": b.mode, "_script": None})
            ctx.cov["evaluations"] += 1; ctx.distinct((case["cls"], b.mode, len(msgs) > 1))
        return alive == 1
    for b in batches:
        rr = res.get(b.sid)
        if rr is None or rr.status != "ok" or not collect(b, rr): crashed.append(b)
    # a batch that did not survive: every instance alone, to name the one(s) that break the process
    singles = []
    for b in crashed:
        for case, idx, probe, d in b.items:
            s1 = Batch("%s_s%d" % (b.sid, idx), b.mode, os.path.join(tmp, "cfg1_%s_%d" % (b.mode, idx))); s1.add(case, idx); singles.append(s1.end())
    if singles:
        res2 = drv.run(exe, [b.s for b in singles], timeout=30)
        for b in singles:
            rr = res2.get(b.sid); case = b.items[0][0]
            if rr is not None and rr.status == "ok" and collect(b, rr): continue
            st = rr.status if rr else "missing"
            summ = ""
            if rr:
                m = re.search(r"SUMMARY: \w+Sanitizer: (.*)", rr.stderr); summ = m.group(1)[:200] if m else rr.stderr[-300:].replace("\n", " ")
                m2 = re.search(r"runtime error: (.*)", rr.stderr); summ = summ or (m2.group(1)[:200] if m2 else "")
            ctx.violation("fault class '%s' (%s), %s mode: process ended with %s (%s): %s" % (case["cls"], case["what"], b.mode, st, rr.code if rr else "?", summ),
                          {"kind": "crash", "class": case["cls"], "what": case["what"], "mode": b.mode, "stream": case["b"], "script": b.s.text(), "stderr": rr.stderr[-5000:] if rr else ""})
    clean = [{k: v for k, v in e.items() if not k.startswith("_")} for e in events]
    acc, consumed, r = check.validate("Trace_Fault.tla", "Trace_Fault.cfg", clean, timeout=1800); tlc.cleanup(r)
    tries = 0
    while not acc and tries < 12:
        if r.error and not r.violation: ctx.infra_fail("Trace_Fault: " + r.error[:600]); break
        e = events[consumed]; case = e.get("_case", {})
        ctx.violation("fault class '%s' (%s), %s mode: the probe packet that follows is not processed (receiver stuck or packet lost)" % (case.get("cls"), case.get("what"), e.get("_mode")),
                      {"kind": "stuck", "class": case.get("cls"), "what": case.get("what"), "mode": e.get("_mode"), "stream": case.get("b"), "returned": e.get("msgs")})
        events = events[consumed + 1:]; clean = clean[consumed + 1:]
        if not clean: acc = True; break
        acc, consumed, r = check.validate("Trace_Fault.tla", "Trace_Fault.cfg", clean, timeout=1800); tlc.cleanup(r); tries += 1
    ctx.cov["traces_validated_against_impl"] += len(batches)
    ctx.cov["fault_instances"] = len(cases); ctx.cov["modes"] = ["debug", "normal"]
    for c in cases[:3] + cases[-2:]: ctx.sample({"class": c["cls"], "what": c["what"], "stream_head": c["b"][:24], "len": len(c["b"])})
    ctx.cov["rule"] = ("cases = fault-class instances (enumerated by TLC from RxFaultMC, plus seeded mutations of valid packets) x {debug, normal mode}; "
                       "distinct = distinct (class, mode, anything delivered besides the probe) triples")
    ctx.assumptions += ["out-of-bounds accesses are detected by AddressSanitizer / UBSan (auxiliary detector; what is fed is enumerated from the specification)",
                        "normal mode: the model configuration (TrackMC) with both boards connected; senders: interface, configured board, unknown node"]
    return ctx.finish()
