--------------------------- MODULE Trace_Downlink ---------------------------
(***************************************************************************)
(* Trace validation of the downlink path (C01 C03 C04 C05 C18):            *)
(* executions recorded from the real library (vdrv) are checked, event by  *)
(* event, against NodeFlow (admission / numbering / stall), LowLevel       *)
(* (argument validation + encoding) and Bytes (framing of the bytes handed *)
(* to the write callback).  Hidden state (budget, held messages, what is   *)
(* still in the packet buffer) is inferred by the specification.           *)
(*                                                                         *)
(* Events (ndjson, file named by env TRACE):                               *)
(*   reset                      new process / session, debug mode          *)
(*   tables  rows               the C response table the library was built with *)
(*   ll      fn na args w       low-level call, w = bytes written during the call *)
(*   up      n ty sv w          uplink message from node n (sv = stall value) *)
(*   tick    d w                virtual time advanced by d seconds         *)
(*   flush   w                  bidib_flush                                *)
(***************************************************************************)
EXTENDS NodeFlow, LowLevel, Bytes, Json, IOUtils, TLC

VARIABLES l,      \* next event
          cap     \* packet capacity in force
tvars == <<nodes, now, seqOn, ghost, l, cap>>

Tr == ndJsonDeserialize(IOEnv.TRACE)

Ev == Tr[l]
IsEv(k) == l <= Len(Tr) /\ Tr[l].e = k /\ l' = l + 1

(* ---- observation of the wire ---- *)
(* the bytes are decoded once per event: wf = well-formed, pk = packets (sequences of raw messages), ms = parsed messages *)
Decode(bytes) ==
    LET wf == WireWellFormed(bytes)
        pk == IF wf THEN WirePackets(bytes) ELSE <<>>
        F  == Flatten(pk)
    IN [wf |-> wf, pk |-> pk, ms |-> [i \in 1..Len(F) |-> ParseMsg(F[i])]]
ForNode(ms, a) == SelectSeq(ms, LAMBDA m : m.addr = a)
Proj(p) == [i \in 1..Len(p) |-> [seq |-> p[i].seq, ty |-> p[i].ty, data |-> p[i].data]]

PacketLen(pk) == FoldLeft(LAMBDA acc, m : acc + Len(m), 0, pk)
CapOk(d, c) == \A k \in 1..Len(d.pk) : Len(d.pk[k]) > 1 => PacketLen(d.pk[k]) <= c

CanConsume(ns, d) ==
    /\ d.wf
    /\ CapOk(d, cap)
    /\ \A i \in 1..Len(d.ms) : d.ms[i].addr \in DOMAIN ns /\ d.ms[i].ty < 128
    /\ \A a \in DOMAIN ns : LET w == Proj(ForNode(d.ms, a)) IN
                              /\ Len(w) <= Len(ns[a].pend)
                              /\ w = SubSeq(Proj(ns[a].pend), 1, Len(w))
Consumed(ns, d) ==
    [a \in DOMAIN ns |-> [ns[a] EXCEPT !.pend = SubSeq(@, Len(ForNode(d.ms, a)) + 1, Len(@))]]
AllOut(ns) == \A a \in DOMAIN ns : ns[a].pend = <<>>

(* ---- trace actions ---- *)
TInit == Init /\ l = 1 /\ cap = 64

TReset == /\ IsEv("reset")
          /\ nodes' = << >> /\ now' = 0 /\ seqOn' = TRUE /\ cap' = 64
          /\ ghost' = [sub |-> << >>, wired |-> << >>, last |-> << >>, bad |-> ghost.bad, touched |-> {}, stouched |-> {}]

TTables == /\ IsEv("tables")
           /\ Ev.rows = RespInfo
           /\ UNCHANGED <<nodes, now, seqOn, ghost, cap>>

TLL == /\ IsEv("ll")
       /\ LET sp == LLSpec(Ev.fn, Ev.args)
              n  == IF LLBroadcast(Ev.fn) THEN <<>> ELSE AddrOf(Ev.na)
              d  == Decode(Ev.w)
          IN /\ sp.acc # "unknown"
             /\ \/ /\ sp.acc \in {"yes", "any"}
                   /\ LenByte(n, sp.data) <= 127
                   /\ LET ns2 == SendNs(nodes, n, sp.ty, sp.data) IN
                      /\ CanConsume(ns2, d)
                      /\ nodes' = Consumed(ns2, d)
                      /\ ghost' = GhostStep([ghost EXCEPT !.sub = FPut(@, n, FGet(@, n, 0) + 1)], nodes, ns2, nodes, {n}, {})
                \/ /\ sp.acc \in {"no", "any"}
                   /\ CanConsume(nodes, d)
                   /\ nodes' = Consumed(nodes, d)
                   /\ UNCHANGED ghost
       /\ UNCHANGED <<now, seqOn, cap>>

TUp == /\ IsEv("up")
       /\ LET n == Ev.n
              ns2 == IF Ev.ty = MSG_STALL THEN StallNs(nodes, n, Ev.sv) ELSE UplinkNs(nodes, n, Ev.ty)
              d == Decode(Ev.w)
          IN /\ CanConsume(ns2, d)
             /\ nodes' = Consumed(ns2, d)
             /\ ReleaseTransmitted(nodes, ns2, ns2, nodes')
             /\ ghost' = IF Ev.ty = MSG_STALL
                         THEN GhostStep(ghost, nodes, ns2, IF Ev.sv = 0 THEN StallMid(nodes, n, 0) ELSE nodes,
                                        {n}, IF Ev.sv = 0 THEN {a \in DOMAIN ns2 : IsPfx(n, a)} ELSE {})
                         ELSE GhostStep(ghost, nodes, ns2, nodes, {n}, {})
       /\ UNCHANGED <<now, seqOn, cap>>

TTick == /\ IsEv("tick")
         /\ now' = now + Ev.d
         /\ LET d == Decode(Ev.w) IN CanConsume(nodes, d) /\ nodes' = Consumed(nodes, d)
         /\ ghost' = [ghost EXCEPT !.touched = {}, !.stouched = {}]
         /\ UNCHANGED <<seqOn, cap>>

TFlush == /\ IsEv("flush")
          /\ LET d == Decode(Ev.w) IN CanConsume(nodes, d) /\ nodes' = Consumed(nodes, d)
          /\ AllOut(nodes')           \* once flushed, every accepted message is on the wire
          /\ UNCHANGED <<now, seqOn, ghost, cap>>

TNext == TReset \/ TTables \/ TLL \/ TUp \/ TTick \/ TFlush
TSpec == TInit /\ [][TNext]_tvars

NotAccepted == l <= Len(Tr)
(* acceptance: the search consumed every event (one state per event plus the initial state) *)
TraceAccepted == TLCGet("stats").diameter - 1 = Len(Tr)
=============================================================================
